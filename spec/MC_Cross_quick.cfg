SPECIFICATION Spec
CONSTANTS
  RADD = "fromR"
  SHAPES <- Q_SHAPES
  KICKS = {1, 2}
  NSWEEPS = 1
INVARIANT Conformable
INVARIANT IdxCovers
INVARIANT RanksValid
CHECK_DEADLOCK FALSE
