---------------------------- MODULE TraceCrossArgs ----------------------------
(***************************************************************************)
(* Second level of the trace validation of the cross approximation         *)
(* routines.  TraceCross accepts a recorded run iff the row count of every *)
(* call of the user function is the one the bookkeeping of spec/Cross.tla  *)
(* implies for some admissible truncation rank AND every argument is well  *)
(* formed.  Only the second half is property C14; how many rows a call     *)
(* carries is the implementation's business (a version that caches         *)
(* function values and asks for each distinct index once is a legitimate   *)
(* change).  A run TraceCross rejects is validated again here against the  *)
(* property-derived clause alone: every call received a matrix with d      *)
(* integer columns, every column in range (dmrg_cross) / every row of      *)
(* values an actual entry of the argument tensors (function_interpolate).  *)
(* Accepted here = "model drift" (a note), rejected = violation.           *)
(***************************************************************************)
EXTENDS Integers, Sequences, TLC, Json, IOUtils
Traces == JsonDeserialize(IOEnv.TRACE_FILE).traces
NT == Len(Traces)
VARIABLES tid, l
vars == <<tid, l>>
ASSUME \A t \in 1..NT : TLCSet(t, 0)
T == Traces[tid]
Init == tid \in 1..NT /\ l = 1
Next ==
    /\ l <= Len(T.ev)
    /\ LET e == T.ev[l] IN e.rows >= 0 /\ e.ncols = Len(T.N) /\ e.isint /\ e.inrange
    /\ l' = l + 1
    /\ (TLCGet(tid) < l => TLCSet(tid, l))
    /\ UNCHANGED tid
Spec == Init /\ [][Next]_vars
Accepted == LET bad == {t \in 1..NT : TLCGet(t) # Len(Traces[t].ev)} IN
            \/ bad = {}
            \/ (\A t \in bad : PrintT(<<"REJECTED", t, "matched", TLCGet(t), "of", Len(Traces[t].ev)>>)) /\ FALSE
=============================================================================
