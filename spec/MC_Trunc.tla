------------------------------- MODULE MC_Trunc ------------------------------
EXTENDS Trunc
\* eps^2 grid; caps: none, uniform 1 / 2, a per-bond list
Eps2 == {<<1, 100>>, <<1, 16>>, <<1, 9>>, <<1, 4>>, <<1, 2>>, <<9, 16>>, <<0, 1>>}
Caps(d) == {[k \in 1..(d - 1) |-> BIG], [k \in 1..(d - 1) |-> 1], [k \in 1..(d - 1) |-> 2],
            [k \in 1..(d - 1) |-> IF k = 1 THEN 3 ELSE 2]}
Cfgs(D) == UNION { {[d |-> d, p |-> e[1], q |-> e[2], caps |-> c] : e \in Eps2, c \in Caps(d)} : d \in D }
SpectraOver(EN, L) == UNION {{s \in [1..n -> EN] : NonIncreasing(s) /\ s[1] > 0} : n \in 1..L}
Q_CFGS == Cfgs({2, 3, 4})
T_CFGS == Cfgs({2, 3, 4, 5, 6})
Q_SPECTRA == SpectraOver({0, 1, 4, 16, 100}, 3) \cup {<<9, 9, 9, 9>>, <<4, 4, 1>>, <<100, 1, 1, 1>>, <<16, 4, 4, 1>>, <<0, 0>>, <<0>>}
T_SPECTRA == SpectraOver({0, 1, 4, 9, 16, 100}, 4) \cup {<<0, 0>>, <<0>>}
D_SPECTRA == SpectraOver({0, 2, 4, 8, 16}, 4)      \* design run (non-nested redistribution needs even energies)
=============================================================================
