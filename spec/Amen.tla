--------------------------------- MODULE Amen ---------------------------------
(***************************************************************************)
(* Rank calculus and control automaton of the AMEn sweeps                  *)
(* (torchtt/solvers.py _amen_solve_python, torchtt/_amen.py                *)
(* _amen_mm_python; amen_divide has the same structure).  S[k] is the      *)
(* number of unknowns per rank pair of core k (N[k] for solve and mv,      *)
(* M[k]*K[k] for mm).                                                      *)
(*                                                                         *)
(* One sweep:                                                              *)
(*   Orth  right-to-left QR pass over the solution: rx[k] = min(S[k] *     *)
(*         rx[k+1], rx[k])                                                 *)
(*   Step  for k = 0..d-2: the local solution is a (rx[k] S[k]) x rx[k+1]  *)
(*         matrix; it is truncated to r_tr in 1..min(rows, cols); unless   *)
(*         this is the final sweep it is enriched by r_add <= kick columns *)
(*         of the projected residual and re-orthogonalised:                *)
(*         rx[k+1] = min(rows, r_tr + r_add)                               *)
(*         the local system of size rows*cols is solved directly iff       *)
(*         rows*cols < max_full                                            *)
(*   after the sweep: stop if `last`, else set `last` when converged       *)
(***************************************************************************)
EXTENDS Dmrg          \* Orth, Min2, Rows

ACols(r, k) == r[k + 2]
AStepOut(rows, rtr, radd) == Min2(rows, rtr + radd)
=============================================================================
