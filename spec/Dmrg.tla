--------------------------------- MODULE Dmrg ---------------------------------
(***************************************************************************)
(* Rank / shape calculus and control automaton of the two-site DMRG sweeps *)
(* (torchtt/_dmrg.py: dmrg_matvec_python, dmrg_hadamard_python).  0-based  *)
(* positions as in the code; sequences are stored 1-based (Ry[k+1] is the  *)
(* code's Ry[k]).                                                          *)
(*                                                                         *)
(* One sweep i:                                                            *)
(*   Orth  right-to-left QR pass: Ry[k] = min(M[k]*Ry[k+1], Ry[k])         *)
(*   Step  for k = 0..d-2: the supercore is (Ry[k] M[k]) x (M[k+1] Ry[k+2]);*)
(*         its SVD is truncated to r_svd in 1..min(rows, cols); unless this *)
(*         is the sweep number nswp-1 the left factor is enriched by        *)
(*         `kick` random columns and re-orthogonalised:                     *)
(*         Ry[k+1] = min(rows, r_svd + kick)   (a wide QR when rows are few)*)
(*   after the sweep: stop if `last` was set, else set `last` when all      *)
(*   supercores changed by less than eps (environment's choice here)        *)
(*                                                                         *)
(* The direction of a sweep is not part of any property: the mirror image   *)
(* (OrthL, a left-to-right QR pass, then k = d-2..0 with the *right*        *)
(* factor enriched: Ry[k+1] = min(cols, r_svd + kick)) is a behaviour of    *)
(* this specification too, sweep by sweep (the code always sweeps "lr").    *)
(***************************************************************************)
EXTENDS Integers, Sequences, FiniteSets, TLC

Min2(a, b) == IF a <= b THEN a ELSE b

\* right-to-left orthogonalisation pass over ranks r (length d+1) with mode sizes M (length d)
Orth(M, r0) ==
    LET d == Len(M)
        RECURSIVE Fix(_, _)
        Fix(r, k) == IF k < 1 THEN r                       \* k: 0-based core index d-1..1
                     ELSE Fix([r EXCEPT ![k + 1] = Min2(M[k + 1] * r[k + 2], r[k + 1])], k - 1)
    IN Fix(r0, d - 1)

\* left-to-right orthogonalisation pass (the mirror image)
OrthL(M, r0) ==
    LET d == Len(M)
        RECURSIVE Fix(_, _)
        Fix(r, k) == IF k > d - 2 THEN r                     \* k: 0-based core index 0..d-2
                     ELSE Fix([r EXCEPT ![k + 2] = Min2(r[k + 1] * M[k + 1], r[k + 2])], k + 1)
    IN Fix(r0, 0)
OrthD(dir, M, r0) == IF dir = "lr" THEN Orth(M, r0) ELSE OrthL(M, r0)

Rows(M, r, k) == r[k + 1] * M[k + 1]
Cols(M, r, k) == M[k + 2] * r[k + 3]
StepOut(rows, rsvd, kick, finalsweep) == IF finalsweep THEN rsvd ELSE Min2(rows, rsvd + kick)
\* the enriched factor is the left one (rows) in an "lr" sweep, the right one (cols) in an "rl" sweep
StepOutD(dir, rows, cols, rsvd, kick, finalsweep) == StepOut(IF dir = "lr" THEN rows ELSE cols, rsvd, kick, finalsweep)
\* position visited at the p-th step (0-based) of a sweep over d cores
KAt(dir, d, p) == IF dir = "lr" THEN p ELSE d - 2 - p

(***************************************************************************)
(* Accuracy ledger of the sweeps (property-derived inequalities, checked   *)
(* on recorded runs by TraceDmrg / TraceAmen).  Magnitudes are logarithmic *)
(* integers L(x) = floor(1024 log2 x) as in spec/TraceTrunc.tla.  CL is    *)
(* L(10): the "small constant" of properties C11 / C12 / C13 (the same     *)
(* constant the end-to-end comparison with the dense result uses).         *)
(*   LastChop   in the sweep that produces the returned cores, a bond that *)
(*              is neither capped by rmax nor kept in full discards at     *)
(*              most (C eps)^2 |S|^2 / (d-1) of the energy                 *)
(*   Converged  the routine may declare convergence (set `last`) after a   *)
(*              sweep only if every step of that sweep measured a change / *)
(*              residual below C eps                                       *)
(*   ResTrunc   (residual-driven truncation of amen_solve / amen_divide)   *)
(*              the local residual of the kept rank is at most             *)
(*              C max(eps / sqrt d, residual of the untruncated solution)  *)
(***************************************************************************)
CL == 3401
LSLACK == 16
LZERO == -1073741824
LMeasured(x) == x > -1073741823 /\ x < 1073741823
Max2(a, b) == IF a >= b THEN a ELSE b
LastChopOK(tail2, norm2, eps, dm1) == tail2 = LZERO \/ tail2 <= 2 * eps + norm2 - dm1 + 2 * CL + LSLACK
\* (a criterion that is not a number - 0/0 for an exactly zero right-hand side, where "relative" has no meaning - is not measured)
SmallCrit(crit, eps) == crit = LZERO \/ ~LMeasured(crit) \/ crit < eps + CL + LSLACK
ResTruncOK(restr, resnew, eps, sqrtd) == restr = LZERO \/ restr <= Max2(eps - sqrtd, resnew) + CL + LSLACK
=============================================================================
