------------------------------- MODULE MC_C09 -------------------------------
EXTENDS Alg
Sizes == {1, 2, 3}
SmallT(RS, FS, D) == UNION { UNION { {StT(N, R, f, cx) : R \in RankProfiles(d, RS), cx \in BOOLEAN, f \in FS} : N \in SeqsOf(Sizes, d) } : d \in 1..D }
CanonT(FS) == UNION { { StT(<<2, 3, 1, 2>>, <<1, 2, 3, 2, 1>>, f, cx), StT(<<2, 2, 1, 2>>, <<1, 3, 1, 2, 1>>, f, cx),
                 StT(<<3, 2, 2>>, <<1, 3, 2, 1>>, f, cx), StT(<<3, 1, 2>>, <<1, 2, 3, 1>>, f, cx),
                 StT(<<2, 3>>, <<1, 3, 1>>, f, cx), StT(<<4, 3>>, <<1, 3, 1>>, f, cx) } : f \in FS, cx \in BOOLEAN }
SmallM(RS, FS) == UNION { UNION { {StM(mn[1], mn[2], R, f, cx) : R \in RankProfiles(d, RS), cx \in BOOLEAN, f \in FS} :
                                   mn \in SeqsOf({1, 2}, d) \X SeqsOf({1, 2}, d) } : d \in 1..2 }
CanonM(FS) == UNION { { StM(<<4, 2>>, <<2, 3>>, <<1, 2, 1>>, f, cx), StM(<<3>>, <<1>>, <<1, 1>>, f, cx), StM(<<2, 4>>, <<4, 1>>, <<1, 3, 1>>, f, cx),   \* tall and wide modes
                        StM(<<2, 1, 2>>, <<1, 2, 2>>, <<1, 2, 3, 1>>, f, cx), StM(<<3, 2>>, <<3, 2>>, <<1, 3, 1>>, f, cx),
                        StM(<<2, 3, 2>>, <<2, 3, 2>>, <<1, 2, 3, 1>>, f, cx), StM(<<3>>, <<3>>, <<1, 1>>, f, cx) } : f \in FS, cx \in BOOLEAN }
Q_TS == SmallT({1, 2}, {1}, 2) \cup CanonT({1})
T_TS == SmallT({1, 2, 3}, {1, 4}, 3) \cup CanonT({1, 4})
Q_MS == SmallM({1, 2}, {1}) \cup CanonM({1})
T_MS == SmallM({1, 2, 3}, {1, 4}) \cup CanonM({1, 4})
MC_SC == {}
MC_OPS == {"cat", "cat3", "pad", "pad_m", "mprod", "diag_embed", "diag_extract", "to_ttm", "conj", "clone"}
MC_BATCH == {}
MC_ITEMS(n, d) == {}
Q_WIDTHS == {<<0, 0>>, <<1, 0>>, <<0, 2>>, <<1, 1>>}
T_WIDTHS == {<<0, 0>>, <<1, 0>>, <<0, 2>>, <<1, 1>>, <<2, 1>>}
=============================================================================
