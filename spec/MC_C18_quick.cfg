SPECIFICATION Spec
CONSTANTS
  TS <- Q_TS
  MS <- Q_MS
INVARIANT Incompatible
CHECK_DEADLOCK FALSE
