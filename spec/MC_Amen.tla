-------------------------------- MODULE MC_Amen -------------------------------
EXTENDS Amen
CONSTANTS SHAPES, KICKS, NSWP, RX0
VARIABLES S, kick, rx, i, k, phase, last, done
vars == <<S, kick, rx, i, k, phase, last, done>>
Init == /\ S \in SHAPES /\ kick \in KICKS
        /\ \E r \in RX0 : rx = [p \in 1..(Len(S) + 1) |-> IF p = 1 \/ p = Len(S) + 1 THEN 1 ELSE r]
        /\ i = 0 /\ k = 0 /\ phase = "orth" /\ last = FALSE /\ done = FALSE
DoOrth == /\ phase = "orth" /\ ~done
          /\ rx' = Orth(S, rx) /\ phase' = "step" /\ k' = 0
          /\ UNCHANGED <<S, kick, i, last, done>>
DoStep == /\ phase = "step" /\ ~done /\ k <= Len(S) - 2
          /\ LET rows == Rows(S, rx, k)  cols == ACols(rx, k) IN
             \E rtr \in 1..Min2(rows, cols), radd \in 0..kick :
                /\ (last => radd = 0)
                /\ rx' = [rx EXCEPT ![k + 2] = AStepOut(rows, rtr, radd)]
          /\ k' = k + 1
          /\ UNCHANGED <<S, kick, i, phase, last, done>>
EndSweep == /\ phase = "step" /\ ~done /\ k = Len(S) - 1
            /\ IF last \/ i = NSWP - 1
               THEN done' = TRUE /\ UNCHANGED <<i, last, phase, k>>
               ELSE /\ \E conv \in BOOLEAN : last' = conv
                    /\ i' = i + 1 /\ phase' = "orth" /\ UNCHANGED <<done, k>>
            /\ UNCHANGED <<S, kick, rx>>
Stutter == done /\ UNCHANGED vars
Spec == Init /\ [][DoOrth \/ DoStep \/ EndSweep \/ Stutter]_vars
RanksOK == rx[1] = 1 /\ rx[Len(S) + 1] = 1 /\ \A p \in 1..(Len(S) + 1) : rx[p] >= 1
RowsBound == phase = "step" => \A j \in 1..k : rx[j + 1] <= rx[j] * S[j]
ExitOK == done => (last \/ i = NSWP - 1)
MC_SHAPES == {<<2, 2>>, <<1, 3>>, <<3, 1, 2>>, <<2, 3, 2>>, <<12, 3>>, <<2, 2, 2, 2>>}
=============================================================================
