SPECIFICATION Spec
CONSTANTS
  STRUCTS <- Q_STRUCTS
  COEF <- Q_COEF
  DEPTH = 1
INVARIANT Laws
CHECK_DEADLOCK FALSE
