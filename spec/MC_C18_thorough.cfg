SPECIFICATION Spec
CONSTANTS
  TS <- T_TS
  MS <- T_MS
INVARIANT Incompatible
CHECK_DEADLOCK FALSE
