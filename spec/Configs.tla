-------------------------------- MODULE Configs -------------------------------
(***************************************************************************)
(* Configuration spaces of the iterative floating-point routines           *)
(* (properties C11-C14, C16, C17).  TLC enumerates the configurations and  *)
(* states, per configuration, the abstract expected outcome: kind and      *)
(* shape of the result, which arguments may be changed (none), and that    *)
(* the accuracy predicate of the owning property has to hold.  The         *)
(* numbers themselves (an error norm, a residual) are measured on the      *)
(* implementation by the harness; TLC only fixes *which* configurations    *)
(* exist and what has to be true of each.                                  *)
(***************************************************************************)
EXTENDS Integers, Sequences, FiniteSets, SequencesExt, TLC

CONSTANTS OPS,        \* operations enumerated in this run
          SHAPES,     \* mode-size profiles (sequences of naturals)
          RANKS,      \* operand ranks
          EPSEXP,     \* eps = 10^-e for e in EPSEXP
          GUESS,      \* {"none", "fresh", "big", "alias", "reused", "zero", "exact1", "exact2"}; zero: a vanishing guess; exactN: the exact result as the guess and nswp = N
                      \* (the sweep budget is exhausted: the routine returns from its no-enrichment / final-sweep branch)
          SEEDS,      \* internal RNG seeds
          BACKENDS,   \* {"py"} or {"py", "cpp"}
          PREC, MAXFULL, SOLVER, SYSCLS,  \* amen_solve: preconditioner, max_full, local solver, system class
          SCALES,     \* magnitude classes: "unit", "bigcore" (one non-final core of the first operand times 1e5), "small" (overall 1e-5)
          OPTS        \* documented optional arguments beyond the ones above, one deviation from the defaults per configuration:
                      \* "verbose", "kick1" (enrichment rank 1), "kick22" (kickrank = 2, kick2 = 2), "iters" (local_iterations = 10,
                      \* resets = 8), "rmax64" (a rank cap that does not bind), "nswp40", "band1" / "band2" (amen_solve told that
                      \* the operator cores are banded with that bandwidth; the system classes with tridiagonal cores only)

VARIABLES cfg, expect
vars == <<cfg, expect>>

Ones(n) == [k \in 1..n |-> 1]
\* row sizes of a rectangular operator derived from the column profile (pairwise different from it)
RowsOf(N) == [k \in 1..Len(N) |-> IF N[k] = 1 THEN 2 ELSE IF N[k] % 2 = 0 THEN N[k] + 1 ELSE N[k] - 1]

ProductOps == {"fast_matvec", "dmrg_hadamard", "amen_mv", "amen_mm"}
DivideOps == {"div", "rdiv", "elementwise_divide", "elementwise_divide_c"}
SolveOps == {"amen_solve"}
CrossOps == {"dmrg_cross", "interp_uni", "interp_multi"}
ManifoldOps == {"projection", "gradient"}

HasGuess(op) == op \in {"fast_matvec", "dmrg_hadamard", "amen_mv", "amen_mm", "elementwise_divide", "elementwise_divide_c",
                        "amen_solve", "dmrg_cross", "interp_uni", "interp_multi"}
ComplexOK(op) == op \in {"fast_matvec", "dmrg_hadamard"}
MinOrder(op) == IF op \in ProductOps THEN 1 ELSE 2
\* which routine documents which optional argument
OptOK(op, o) ==
    CASE o = "default" -> TRUE
      [] o \in {"verbose", "nswp40"} -> op \in ProductOps \cup SolveOps \cup CrossOps \cup {"elementwise_divide"}
      [] o = "kick1" -> op \in {"dmrg_hadamard", "amen_mv", "amen_mm", "amen_solve", "elementwise_divide"}
      [] o = "kick22" -> op \in {"amen_mv", "amen_mm", "amen_solve"}
      [] o = "iters" -> op \in {"amen_solve", "elementwise_divide"}
      [] o = "rmax64" -> op \in {"dmrg_hadamard", "amen_mv", "amen_mm", "amen_solve"}
      [] o \in {"band1", "band2"} -> op \in SolveOps
      [] OTHER -> FALSE
FlatShape == <<400, 400>>
MinSeed == CHOOSE m \in SEEDS : \A n \in SEEDS : m <= n

Init == /\ expect = [t |-> "none"]
        /\ \E op \in OPS, N \in SHAPES, r \in RANKS, e \in EPSEXP, g \in GUESS, s \in SEEDS, cx \in BOOLEAN, be \in BACKENDS,
              data \in {"rand", "decay", "zero", "col1", "flat"}, sq \in BOOLEAN,
              prec \in PREC \cup {"none"}, mf \in MAXFULL \cup {500}, ls \in SOLVER \cup {1}, sys \in SYSCLS \cup {"na"},
              sc \in SCALES \cup {"unit"}, opt \in OPTS \cup {"default"} :
             /\ Len(N) >= MinOrder(op)
             /\ (g # "none" => HasGuess(op))
             /\ (g \in {"sweep1", "sweep2"} => op \in CrossOps /\ sc = "unit")
             /\ (g = "zero" => op \in ProductOps \cup SolveOps \cup {"elementwise_divide", "elementwise_divide_c"})
             /\ (g \in {"exact1", "exact2"} => op \in ProductOps /\ sc = "unit")
             /\ (cx => ComplexOK(op))
             /\ (be = "cpp" => op \in {"fast_matvec", "amen_solve"} /\ (cx => op = "fast_matvec"))   \* (complex: the DMRG class of C11)
             /\ (data = "decay" => op \in ProductOps \cup SolveOps)
             \* data = "col1": amen_mm with a second operand whose column modes are all 1 (the result is still a TT matrix)
             /\ (data = "col1" => op = "amen_mm" /\ sc = "unit")
             \* data = "zero": the second operand (products), the right-hand side (solve) or the numerator (divide) is exactly zero;
             \* the exact result is the zero tensor and the routine has to return it (to roundoff), not to fail
             /\ (data = "zero" => op \in ProductOps \cup SolveOps \cup DivideOps /\ g = "none" /\ sc = "unit" /\ r = 1)
             \* data = "flat": the exact result is a FlatShape matrix with one dominant singular value and a flat tail of several hundred
             \* equal ones, each just below the per-bond allowance of the final sweep (x = eye @ x resp. ones * y).  A truncation that
             \* looks at the singular values one by one instead of at the norm of the discarded tail loses sqrt(#tail) times the
             \* allowance - beyond every "small constant" once the tail is long enough; the two-site sweeps reach any rank in one step
             \* (order 2), the one-site AMEn routines would need rank / kick sweeps and are not asked
             /\ (data = "flat" <=> N = FlatShape)
             /\ (data = "flat" => /\ g = "none" /\ sc = "unit" /\ r = 1 /\ ~cx /\ opt = "default" /\ s = MinSeed
                                  /\ ((op = "fast_matvec" /\ sq) \/ (op = "dmrg_hadamard" /\ ~sq)))
             /\ (sq => op \in {"fast_matvec", "amen_mv", "amen_mm", "amen_solve"})      \* square operator
             /\ (g = "alias" => (sq \/ op \notin {"fast_matvec", "amen_mv", "amen_mm"}))
             /\ (op \notin SolveOps => prec = "none" /\ mf = 500 /\ ls = 1 /\ sys = "na")
             \* relative accuracy is scale invariant: badly scaled cores / tiny magnitudes are inputs like any other
             /\ (sc = "bigcore" => op \in ProductOps /\ Len(N) >= 2 /\ g = "none")
             /\ (sc = "small" => op \in CrossOps \cup ProductOps \cup SolveOps \cup DivideOps /\ g = "none")
             \* (solve: right-hand side times 1e-5 and operator times 1e3; divide: numerator times 1e-5, denominator times 1e3)
             \* amen_solve: data = "rand" is a consistent right-hand side b = A x* with x* of rank r, data = "decay" a random
             \* right-hand side of rank r (the solution then has larger ranks and the local systems exceed max_full)
             /\ (op \in SolveOps => sys # "na" /\ sq)
             /\ (op \in SolveOps /\ data = "decay" => Len(N) >= 3 /\ N[1] >= 12)
             \* large systems (where the restarted / iterative local solvers really iterate) only for the Laplacian class
             /\ (op \in SolveOps /\ Len(N) >= 3 /\ N[1] >= 12 => sys = "laplace" /\ g \in {"none", "fresh"} /\ ls = 1)
             /\ (op \in DivideOps \cup CrossOps \cup ManifoldOps => data \in {"rand", "zero"} /\ ~sq)
             \* large order-4 grids (interior local systems solved iteratively, interior bonds converging last): plain calls only
             \* (default options: with kick = 1 the rank grows by one per sweep and a quotient of rank 56 is out of reach of nswp = 50)
             /\ (op \in DivideOps /\ Len(N) >= 4 /\ N[2] >= 8 => g = "none" /\ sc = "unit" /\ r >= 3 /\ data = "rand" /\ opt = "default")
             /\ (op = "elementwise_divide_c" \/ op \in {"div", "rdiv"} => g \in {"none"} \/ op = "elementwise_divide_c")
             \* optional arguments: one at a time, on plain calls (no guess, unit scale, generic data, one seed)
             /\ OptOK(op, opt)
             /\ (opt # "default" => g = "none" /\ sc = "unit" /\ data = "rand" /\ ~cx /\ s = MinSeed)
             /\ (opt \in {"band1", "band2"} => sys \in {"laplace", "diagvar"})
             /\ cfg = [op |-> op, N |-> N, M |-> IF sq THEN N ELSE RowsOf(N), r |-> r, e |-> e, guess |-> g, seed |-> s, cx |-> cx,
                       backend |-> be, data |-> data, prec |-> prec, maxfull |-> mf, solver |-> ls, sys |-> sys, scale |-> sc,
                       opt |-> opt]

\* the abstract expected outcome
Outcome(c) ==
    [t |-> "tt-like",
     kind |-> IF c.op = "amen_mm" THEN "ttm" ELSE "tt",
     N |-> IF c.op \in {"fast_matvec", "amen_mv"} THEN c.M ELSE c.N,     \* tensor shape / column shape of the result
     M |-> IF c.op = "amen_mm" THEN c.M ELSE <<>>,
     mutates |-> {},                                                      \* no argument may change (C06)
     accurate |-> TRUE]                                                   \* the owning property's accuracy predicate must hold
Decide == /\ expect.t = "none"
          /\ expect' = Outcome(cfg)
          /\ UNCHANGED cfg
Spec == Init /\ [][Decide]_vars

\* sanity of the table itself
WellTyped == expect.t # "none" =>
                /\ Len(expect.N) = Len(cfg.N)
                /\ expect.mutates = {}
                /\ (expect.kind = "ttm" <=> cfg.op = "amen_mm")
=============================================================================
