SPECIFICATION Spec
CONSTANTS
  SHAPES <- T_SHAPES
  DEPTH = 2
  TRACK = {"x", "x0", "xl", "xr", "xw2", "y", "xy", "wx"}
INVARIANT WellTyped
CHECK_DEADLOCK FALSE
