SPECIFICATION Spec
CONSTANTS
  DIMS = {1, 2, 3, 7, 50}
  MAXITS = {1, 2, 5, 41}
  RESETS = {1, 2, 4}
INVARIANT StepBound
INVARIANT ExitOK
INVARIANT Bounded
CHECK_DEADLOCK TRUE
