------------------------------- MODULE MC_C18 -------------------------------
EXTENDS Err
Sizes == {1, 2, 3}
Q_TS == UNION { UNION { {StT(N, R, 1, FALSE) : R \in RankProfiles(d, {2})} : N \in SeqsOf(Sizes, d) } : d \in 1..2 }
        \cup { StT(<<2, 3, 2>>, <<1, 2, 2, 1>>, 1, FALSE), StT(<<3, 1, 2>>, <<1, 2, 3, 1>>, 1, FALSE), StT(<<2, 2>>, <<1, 2, 1>>, 1, TRUE),
               StT(<<4, 2>>, <<1, 2, 1>>, 1, FALSE), StT(<<2, 3>>, <<1, 1, 1>>, 1, FALSE), StT(<<2, 3, 2>>, <<1, 2, 1, 1>>, 1, FALSE) }
Q_MS == UNION { {StM(mn[1], mn[2], <<1, 1>>, 1, FALSE) : mn \in SeqsOf({1, 2, 3}, 1) \X SeqsOf({1, 2, 3}, 1)} }
        \cup { StM(<<2, 3>>, <<3, 2>>, <<1, 2, 1>>, 1, FALSE), StM(<<2, 2>>, <<2, 2>>, <<1, 2, 1>>, 1, FALSE), StM(<<3, 2>>, <<3, 2>>, <<1, 3, 1>>, 1, FALSE),
               StM(<<2, 1, 2>>, <<2, 3, 2>>, <<1, 2, 2, 1>>, 1, FALSE), StM(<<2, 2>>, <<2, 2>>, <<1, 2, 1>>, 1, TRUE) }
T_TS == UNION { UNION { {StT(N, R, 1, cx) : R \in RankProfiles(d, {1, 2}), cx \in BOOLEAN} : N \in SeqsOf(Sizes, d) } : d \in 1..3 }
        \cup { StT(<<4, 2>>, <<1, 2, 1>>, 1, FALSE), StT(<<2, 3, 1, 2>>, <<1, 2, 3, 2, 1>>, 1, FALSE) }
T_MS == UNION { UNION { {StM(mn[1], mn[2], R, 1, cx) : R \in RankProfiles(d, {1, 2}), cx \in BOOLEAN} : mn \in SeqsOf({1, 2, 3}, d) \X SeqsOf({1, 2, 3}, d) } : d \in 1..2 }
        \cup { StM(<<2, 1, 2>>, <<2, 3, 2>>, <<1, 2, 2, 1>>, 1, FALSE) }
=============================================================================
