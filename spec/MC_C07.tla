------------------------------- MODULE MC_C07 -------------------------------
EXTENDS Alg
Sizes == {1, 2, 3}
Shapes == UNION {SeqsOf(Sizes, d) : d \in 1..3}
SmallT(RS, FS) == UNION { {StT(N, R, f, cx) : R \in RankProfiles(Len(N), RS), cx \in BOOLEAN, f \in FS} : N \in Shapes }
CanonT(FS) == UNION { { StT(<<2, 3, 1, 2>>, <<1, 2, 3, 2, 1>>, f, cx), StT(<<3, 1, 2, 2>>, <<1, 3, 1, 2, 1>>, f, cx),
                 StT(<<2, 1, 3, 2, 2>>, <<1, 2, 2, 3, 2, 1>>, f, cx), StT(<<4, 3>>, <<1, 3, 1>>, f, cx),
                 StT(<<2, 3>>, <<1, 3, 1>>, f, cx), StT(<<3, 2>>, <<1, 3, 1>>, f, cx),
                 StT(<<2, 1, 2>>, <<1, 2, 3, 1>>, f, cx), StT(<<3, 2, 2>>, <<1, 3, 2, 1>>, f, cx)} : f \in FS, cx \in BOOLEAN }
Pairs(d) == SeqsOf({1, 2, 3}, d) \X SeqsOf({1, 2, 3}, d)
SmallM(RS, FS) == UNION { UNION { {StM(mn[1], mn[2], R, f, cx) : R \in RankProfiles(d, RS), cx \in BOOLEAN, f \in FS} : mn \in Pairs(d) } : d \in 1..2 }
CanonM(FS) == UNION { { StM(<<2, 3, 2>>, <<3, 1, 2>>, <<1, 2, 3, 1>>, f, cx), StM(<<2, 1, 3>>, <<2, 3, 1>>, <<1, 3, 2, 1>>, f, cx),
                        StM(<<2, 1, 2, 2>>, <<1, 3, 2, 1>>, <<1, 2, 3, 2, 1>>, f, cx) } : f \in FS, cx \in BOOLEAN }
Q_TS == SmallT({1, 2}, {1}) \cup CanonT({0, 1})
Q_MS == SmallM({1, 2}, {1}) \cup CanonM({0, 1})
T_TS == SmallT({1, 2, 3}, {1, 4}) \cup CanonT({0, 1, 4})
T_MS == SmallM({1, 2, 3}, {1, 4}) \cup CanonM({0, 1, 4})
MC_SC == {}
MC_OPS == {"norm2", "norm", "sum_all", "sum_axes", "dot", "dot_axes", "bilinear"}
MC_BATCH == {}
MC_ITEMS(n, d) == {}
MC_WIDTHS == {}
=============================================================================
