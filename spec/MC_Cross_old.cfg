SPECIFICATION Spec
CONSTANTS
  RADD = "fromQ"
  SHAPES <- Q_SHAPES
  KICKS = {1, 2}
  R0 = {2, 4, 7}
  NSWEEPS = 1
INVARIANT Conformable
INVARIANT IdxCovers
INVARIANT StartAdmissible
INVARIANT RanksValid
CHECK_DEADLOCK FALSE
