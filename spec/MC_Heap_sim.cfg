SPECIFICATION Spec
CONSTANTS
  HINIT <- MC_HINIT
  MAXOBJ = 9
  MAXDEPTH = 7
  MAXRANK = 6
  HOPS <- MC_HOPS
  EXPRS <- MC_EXPRS
INVARIANT AllWF
PROPERTY Stable
PROPERTY Monotone
CHECK_DEADLOCK FALSE
