-------------------------------- MODULE MC_Dmrg -------------------------------
EXTENDS Dmrg
CONSTANTS SHAPES, KICKS, NSWP, RY0
VARIABLES M, kick, Ry, i, k, phase, last, done, dir
vars == <<M, kick, Ry, i, k, phase, last, done, dir>>

Init == /\ M \in SHAPES /\ kick \in KICKS
        /\ \E r \in RY0 : Ry = [p \in 1..(Len(M) + 1) |-> IF p = 1 \/ p = Len(M) + 1 THEN 1 ELSE r]
        /\ i = 0 /\ k = 0 /\ phase = "orth" /\ last = FALSE /\ done = FALSE /\ dir = "lr"

\* k counts the steps of the sweep; the position visited is KAt(dir, d, k)
DoOrth == /\ phase = "orth" /\ ~done
          /\ \E dd \in {"lr", "rl"} : dir' = dd /\ Ry' = OrthD(dd, M, Ry)
          /\ phase' = "step" /\ k' = 0
          /\ UNCHANGED <<M, kick, i, last, done>>
DoStep == /\ phase = "step" /\ ~done /\ k <= Len(M) - 2
          /\ LET q == KAt(dir, Len(M), k)  rows == Rows(M, Ry, q)  cols == Cols(M, Ry, q) IN
             \E rsvd \in 1..Min2(rows, cols) :
                Ry' = [Ry EXCEPT ![q + 2] = StepOutD(dir, rows, cols, rsvd, kick, i = NSWP - 1)]
          /\ k' = k + 1
          /\ UNCHANGED <<M, kick, i, phase, last, done, dir>>
EndSweep == /\ phase = "step" /\ ~done /\ k = Len(M) - 1
            /\ IF last \/ i = NSWP - 1
               THEN done' = TRUE /\ UNCHANGED <<i, last, phase, k>>
               ELSE /\ \E conv \in BOOLEAN : last' = conv
                    /\ i' = i + 1 /\ phase' = "orth" /\ UNCHANGED <<done, k>>
            /\ UNCHANGED <<M, kick, Ry, dir>>
Stutter == done /\ UNCHANGED vars
Spec == Init /\ [][DoOrth \/ DoStep \/ EndSweep \/ Stutter]_vars

RanksOK == /\ Ry[1] = 1 /\ Ry[Len(M) + 1] = 1
           /\ \A p \in 1..(Len(M) + 1) : Ry[p] >= 1
\* every core [Ry[k], M[k], Ry[k+1]] of the result can hold a left factor with orthonormal columns after a step:
\* the new rank never exceeds the number of rows of the supercore
RowsBound == phase = "step" => \A p \in 0..(k - 1) : LET q == KAt(dir, Len(M), p) IN
                                  IF dir = "lr" THEN Ry[q + 2] <= Ry[q + 1] * M[q + 1] ELSE Ry[q + 2] <= M[q + 2] * Ry[q + 3]
\* the result is returned only after a sweep that ran with last = TRUE, or when the sweeps are exhausted
ExitOK == done => (last \/ i = NSWP - 1)
Bounded == i <= NSWP - 1
MC_SHAPES == {<<2, 2>>, <<1, 3>>, <<3, 1, 2>>, <<2, 3, 2>>, <<6, 2, 1, 3>>, <<2, 2, 2, 2>>}
=============================================================================
