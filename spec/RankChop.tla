------------------------------ MODULE RankChop ------------------------------
(***************************************************************************)
(* Model of the rank selection on its own: every spectrum / threshold in   *)
(* a small scope, decided by both transcriptions (ChopDefs), checked       *)
(* against the contract.  Every state is replayed on the real rank_chop.   *)
(***************************************************************************)
EXTENDS ChopDefs

\* ---- model: enumerate spectra and thresholds
CONSTANTS EN,        \* set of energies a singular value may have (naturals)
          MAXLEN,    \* longest spectrum
          TH         \* set of thresholds <<thn, thd>>

VARIABLES e, th, rpy, rcpp
vars == <<e, th, rpy, rcpp>>

Spectra == UNION {{s \in [1..n -> EN] : NonIncreasing(s)} : n \in 1..MAXLEN}

Init == /\ e \in Spectra /\ th \in TH
        /\ rpy = 0 /\ rcpp = 0
Decide == /\ rpy = 0
          /\ rpy' = ChopPy(e, th[1], th[2])
          /\ rcpp' = ChopCpp(e, th[1], th[2])
          /\ UNCHANGED <<e, th>>
Spec == Init /\ [][Decide]_vars

\* minimality (rank <= exact rank) is promised only for a positive threshold ("eps above roundoff level")
PyMeetsContract == rpy # 0 => /\ ChopOK(e, th[1], th[2], rpy)
                              /\ (th[1] > 0 => ChopMinimal(e, th[1], th[2], rpy))
\* the C++ routine uses a strict comparison: it never discards more than allowed (ChopOK) but may keep one
\* value more than needed at an exact tie; only (a),(b) are demanded of it
CppWithin == rcpp # 0 => (th[1] > 0 => ChopOK(e, th[1], th[2], rcpp))
=============================================================================
