------------------------------- MODULE TraceDmrg ------------------------------
(***************************************************************************)
(* Trace validation of the DMRG sweeps: the hooks in torchtt/_dmrg.py emit *)
(* begin {d, M, Ry, nswp, kick}, one step event per supercore {sweep, k,   *)
(* rows, cols, r_svd, r_out, last} and end {Ry, sweeps, last}.  A trace is *)
(* accepted iff it is a behaviour of spec/Dmrg.tla: every sweep starts     *)
(* with the orthogonalisation pass, the logged supercore sizes are the     *)
(* ones the rank bookkeeping implies, r_svd is admissible, r_out follows   *)
(* the kick rule, `last` never goes back, the routine stops only after a   *)
(* final sweep or when nswp sweeps are used, and the returned ranks are    *)
(* the model's.  With the ledger fields (norm2, tail2, nsv, cap, crit of   *)
(* every step; eps of every sweep) the accuracy ledger of spec/Dmrg.tla is *)
(* checked as well: LastChop on the final sweep, Converged whenever `last` *)
(* was set.  A sweep may run in either direction (Dmrg.tla): the hooks of  *)
(* the mirrored routine report the same fields.                            *)
(***************************************************************************)
EXTENDS Dmrg, Json, IOUtils

Traces == JsonDeserialize(IOEnv.TRACE_FILE).traces
NT == Len(Traces)
VARIABLES tid, l, Ry, wasLast
vars == <<tid, l, Ry, wasLast>>
ASSUME \A t \in 1..NT : TLCSet(t, 0)
T == Traces[tid]
d == Len(T.M)

EpsL == IF "sw" \in DOMAIN T /\ Len(T.sw) > 0 THEN T.sw[1].eps_L ELSE 0
\* `last` was set after sweep s (0-based): the next sweep ran with last = TRUE, or the routine ended with last = TRUE right after s
DeclaredAfter(s) == \/ \E j \in 1..Len(T.ev) : T.ev[j].sweep = s + 1 /\ T.ev[j].last
                    \/ (T.end.sweeps = s + 1 /\ T.end.last /\ \A j \in 1..Len(T.ev) : T.ev[j].sweep = s => ~T.ev[j].last)
Init == tid \in 1..NT /\ l = 1 /\ Ry = Traces[tid].Ry /\ wasLast = FALSE

\* position of event l inside its sweep (every sweep has d-1 steps) and the direction of that sweep: read off the position of the
\* sweep's first step (0: left to right, d-2: right to left; a single supercore, d = 2, fits both)
Pos == (l - 1) % (d - 1)
Dirs == IF d = 2 THEN {"lr", "rl"}
        ELSE IF T.ev[l - Pos].k = 0 THEN {"lr"} ELSE IF T.ev[l - Pos].k = d - 2 THEN {"rl"} ELSE {}
Next ==
    /\ l <= Len(T.ev)
    /\ \E dir \in Dirs :
       LET e == T.ev[l]
           r0 == IF Pos = 0 THEN OrthD(dir, T.M, Ry) ELSE Ry     \* a sweep begins with the orthogonalisation pass
           rows == Rows(T.M, r0, e.k)  cols == Cols(T.M, r0, e.k) IN
       /\ e.k = KAt(dir, d, Pos)                                  \* the bonds in the sweep's order, each once
       /\ e.sweep >= 0 /\ e.sweep <= T.nswp - 1
       /\ (l > 1 => e.sweep = T.ev[l - 1].sweep + (IF Pos = 0 THEN 1 ELSE 0))
       /\ (l = 1 => e.sweep = 0)
       /\ e.rows = rows /\ e.cols = cols
       /\ e.r_svd >= 1 /\ e.r_svd <= Min2(rows, cols)
       /\ e.r_out = StepOutD(dir, rows, cols, e.r_svd, T.kick, e.sweep = T.nswp - 1)
       /\ (wasLast => e.last)                                     \* `last` never goes back ...
       /\ (wasLast /\ Pos = 0 => FALSE)                          \* ... and the sweep that ran with last = TRUE is the final one
       /\ ("tail2_L" \in DOMAIN e /\ e.last /\ e.r_svd < e.cap /\ e.r_svd < e.nsv                   \* LastChop
             => LastChopOK(e.tail2_L, e.norm2_L, EpsL, T.dm1_L))
       /\ ("crit_L" \in DOMAIN e /\ Pos = d - 2 /\ ~e.last /\ DeclaredAfter(e.sweep)                \* Converged
             => \A j \in (l - (d - 2))..l : SmallCrit(T.ev[j].crit_L, EpsL))
       /\ Ry' = [r0 EXCEPT ![e.k + 2] = e.r_out]
       /\ wasLast' = (IF Pos = d - 2 THEN e.last ELSE wasLast)
    /\ l' = l + 1
    /\ (TLCGet(tid) < l => TLCSet(tid, l))
    /\ UNCHANGED tid
Finish ==
    /\ l = Len(T.ev) + 1
    /\ T.end.Ry = Ry                                               \* returned ranks are the model's
    /\ Len(T.ev) = T.end.sweeps * (d - 1)
    /\ (T.end.sweeps < T.nswp => T.end.last)                       \* early exit only after a final sweep
    /\ TLCSet(tid, Len(T.ev) + 1)
    /\ l' = l + 1 /\ UNCHANGED <<tid, Ry, wasLast>>
Spec == Init /\ [][Next \/ Finish]_vars

Accepted == LET bad == {t \in 1..NT : TLCGet(t) # Len(Traces[t].ev) + 1} IN
            \/ bad = {}
            \/ (\A t \in bad : PrintT(<<"REJECTED", t, "matched", TLCGet(t), "of", Len(Traces[t].ev) + 1>>)) /\ FALSE
=============================================================================
