SPECIFICATION Spec
CONSTANTS
  RADD = "fromR"
POSTCONDITION Accepted
CHECK_DEADLOCK FALSE
