------------------------------- MODULE Reshape -------------------------------
(***************************************************************************)
(* torchtt.reshape: transcription of the two-cursor walk that merges and   *)
(* splits cores (torchtt/_extras.py reshape, tensor and operator branch).  *)
(* A mode is a pair <<m, n>> (row size, column size); a tensor mode is     *)
(* <<n, 1>>.  Only shapes are tracked: the walk's control flow depends on  *)
(* nothing else.                                                           *)
(*                                                                         *)
(*  0. trailing singleton input cores are absorbed into their neighbour    *)
(*  1. loop:  if the current core is divisible by the next target mode:    *)
(*              - quotient > 1: SVD split, emit the target mode, keep the  *)
(*                remainder as current core                                *)
(*              - else emit the current core; stop if it was the last      *)
(*                input core, otherwise advance to the next input core     *)
(*              next target mode; stop when the target is exhausted        *)
(*            else merge the next input core into the current one (stop if *)
(*                 there is none)                                          *)
(*  2. pad with unit modes up to the requested number of modes             *)
(*                                                                         *)
(*   ShapeOK      the emitted modes are exactly the requested ones         *)
(*   AllConsumed  every input core went into the result (no factor lost)   *)
(*   Budget       #SVD splits <= #target modes - 1, so splits at           *)
(*                eps/sqrt(dfin-1) add up to at most eps                   *)
(*   Termination  every walk ends (no deadlock before "done", bounded)      *)
(***************************************************************************)
EXTENDS Integers, Sequences, FiniteSets, SequencesExt, TLC

CONSTANTS SHAPES     \* set of shapes (sequences of modes <<m, n>>); every pair with equal row and column products is walked

VARIABLES src, tgt, cores, idx, is, cur, out, pc, nsplit, merged, steps
vars == <<src, tgt, cores, idx, is, cur, out, pc, nsplit, merged, steps>>

IsOne(md) == md[1] = 1 /\ md[2] = 1
RECURSIVE Absorb(_)
Absorb(cs) == IF Len(cs) > 1 /\ IsOne(cs[Len(cs)]) THEN Absorb(SubSeq(cs, 1, Len(cs) - 1)) ELSE cs

IMul(a, b) == a * b
RowProd(s) == FoldLeft(IMul, 1, [k \in 1..Len(s) |-> s[k][1]])
ColProd(s) == FoldLeft(IMul, 1, [k \in 1..Len(s) |-> s[k][2]])
IsTensor(s) == \A k \in 1..Len(s) : s[k][2] = 1

Init == /\ src \in SHAPES /\ tgt \in SHAPES
        /\ RowProd(src) = RowProd(tgt) /\ ColProd(src) = ColProd(tgt) /\ IsTensor(src) = IsTensor(tgt)
        /\ cores = Absorb(src)
        /\ idx = 1 /\ is = 1 /\ cur = Absorb(src)[1] /\ out = <<>> /\ pc = "loop" /\ nsplit = 0
        /\ merged = {1}                      \* input cores that have gone into cur / out so far
        /\ steps = 0

Divisible == cur[1] % tgt[is][1] = 0 /\ cur[2] % tgt[is][2] = 0
Loop ==
    /\ pc = "loop"
    /\ IF Divisible
       THEN IF cur[1] \div tgt[is][1] > 1 \/ cur[2] \div tgt[is][2] > 1
            THEN /\ out' = Append(out, tgt[is])                                   \* SVD split
                 /\ cur' = <<cur[1] \div tgt[is][1], cur[2] \div tgt[is][2]>>
                 /\ nsplit' = nsplit + 1
                 /\ is' = is + 1 /\ pc' = IF is + 1 > Len(tgt) THEN "pad" ELSE "loop"
                 /\ UNCHANGED <<idx, merged>>
            ELSE /\ out' = Append(out, cur)
                 /\ IF idx = Len(cores)
                    THEN pc' = "pad" /\ UNCHANGED <<idx, cur, is, merged>>
                    ELSE /\ idx' = idx + 1 /\ cur' = cores[idx + 1] /\ merged' = merged \cup {idx + 1}
                         /\ is' = is + 1 /\ pc' = IF is + 1 > Len(tgt) THEN "pad" ELSE "loop"
                 /\ UNCHANGED nsplit
       ELSE /\ idx' = idx + 1
            /\ IF idx + 1 > Len(cores)
               THEN pc' = "pad" /\ UNCHANGED <<cur, merged>>
               ELSE /\ cur' = <<cur[1] * cores[idx + 1][1], cur[2] * cores[idx + 1][2]>>
                    /\ merged' = merged \cup {idx + 1} /\ pc' = "loop"
            /\ UNCHANGED <<out, is, nsplit>>
    /\ steps' = steps + 1
    /\ UNCHANGED <<src, tgt, cores>>
Pad ==
    /\ pc = "pad"
    /\ out' = out \o [k \in 1..(Len(tgt) - Len(out)) |-> <<1, 1>>] 
    /\ pc' = "done"
    /\ UNCHANGED <<src, tgt, cores, idx, is, cur, nsplit, merged, steps>>
Done == pc = "done" /\ UNCHANGED vars
Next == Loop \/ Pad \/ Done
Spec == Init /\ [][Next]_vars

ShapeOK == pc = "done" => out = tgt
\* the last emitted core was the last input core: nothing is left behind
AllConsumed == pc = "done" => merged = 1..Len(cores)
Budget == nsplit <= (IF Len(tgt) = 0 THEN 0 ELSE Len(tgt) - 1) \/ pc # "done"
\* termination: the walk cannot get stuck before "done" (checked as absence of deadlock: Done is the only
\* stuttering step) and every loop step advances one of the two cursors, so it is bounded by their ranges
Termination == steps <= Len(cores) + Len(tgt) + 1
=============================================================================
