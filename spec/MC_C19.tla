------------------------------- MODULE MC_C19 -------------------------------
EXTENDS Alg
Sizes == {1, 2, 3}
SmallT(RS, D) == UNION { UNION { {StT(N, R, 1, cx) : R \in RankProfiles(d, RS), cx \in BOOLEAN} : N \in SeqsOf(Sizes, d) } : d \in 1..D }
CanonT == UNION { { StT(<<2, 3, 1, 2>>, <<1, 2, 3, 2, 1>>, 1, cx), StT(<<2, 1, 3, 2, 2>>, <<1, 2, 2, 3, 2, 1>>, 1, cx),
                    StT(<<2, 2, 1, 2, 2, 2>>, <<1, 2, 2, 2, 3, 2, 1>>, 1, cx), StT(<<4, 3>>, <<1, 3, 1>>, 1, cx) } : cx \in BOOLEAN }
SmallM(RS) == UNION { UNION { {StM(mn[1], mn[2], R, 1, cx) : R \in RankProfiles(d, RS), cx \in BOOLEAN} :
                               mn \in SeqsOf({1, 2}, d) \X SeqsOf({1, 2, 3}, d) } : d \in 1..2 }
CanonM == UNION { { StM(<<2, 1, 2>>, <<1, 2, 2>>, <<1, 2, 3, 1>>, 1, cx), StM(<<2, 2, 1, 2>>, <<1, 2, 2, 1>>, <<1, 2, 2, 2, 1>>, 1, cx) } : cx \in BOOLEAN }
Q_TS == SmallT({1, 2}, 2) \cup CanonT
T_TS == SmallT({1, 2, 3}, 3) \cup CanonT
Q_MS == SmallM({2}) \cup CanonM
T_MS == SmallM({1, 2, 3}) \cup CanonM
MC_SC == {}
\* to_dtype: to(dtype=t); to_both: to(device=cpu, dtype=t); to_pos: to('cpu', t); to_device: to('cpu'); to_none: to()
MC_OPS == {"save_load", "clone_c", "detach", "to_dtype", "to_both", "to_pos", "to_device", "to_none", "cpu", "numpy"}
MC_BATCH == {}
MC_ITEMS(n, d) == {}
MC_WIDTHS == {}
=============================================================================
