---------------------------------- MODULE Expr --------------------------------
(***************************************************************************)
(* Program space for property C15: scalar-valued expressions composed from *)
(* the differentiable TT operations, typed by shape.                       *)
(*   body  B ::= x | y | B + B | B - B | B * B | -B | c*B | B + c | A @ B  *)
(*             | mprod(B, Q)            (all of the base shape N)          *)
(*   head  H ::= id | slice | cat(., y) | pad | kron(., y) | diag | full   *)
(*             | kronl: kron(kron(None, .), y) | kronr: kron(., None)      *)
(*             | bcast / bmul / bsub: . + w, . * w, . - w with w one order *)
(*               lower (broadcast)                                          *)
(*   red   R ::= sum | sum over mode 0 then sum | dot with a constant      *)
(*             | norm | norm^2 | one entry | apply_mask | bilinear form    *)
(*             | weighted sum of full()                                    *)
(* together with the choice of what is tracked by autograd.  The expected  *)
(* outcome of every program: grad returns, for every tracked core, a       *)
(* tensor of the core's shape equal to the derivative of the same          *)
(* expression computed on dense arrays built from the same leaves.         *)
(***************************************************************************)
EXTENDS Integers, Sequences, FiniteSets, TLC

CONSTANTS SHAPES,     \* base structures [N, R, scale] (scale: "unit" or "tiny" = all leaves times 1e-8)
          DEPTH,      \* nesting depth of the body
          TRACK       \* tracked sets: "x", "x0" (first core of x only), "xl" (core_indices = [d-1]), "xr" (core_indices = [d-1, 0],
                      \* unsorted and not a prefix), "xw2" (two watch calls, [0] then [d-1], gradients of both asked), "y", "xy" (watch_list),
                      \* "wx" (operands of different order)

VARIABLES s, body, head, red, track
vars == <<s, body, head, red, track>>

Leaf(n) == [op |-> n]
Un(o, a) == [op |-> o, a |-> a]
Bin(o, a, b) == [op |-> o, a |-> a, b |-> b]
\* sscal: t * s with the scalar s = sum(t) passed as a 0-d tensor that itself depends on the tracked cores (product rule)
RECURSIVE Bodies(_)
Bodies(n) == IF n = 0 THEN {Leaf("x"), Leaf("y")}
             ELSE LET T == Bodies(n - 1) IN
                  T \cup {Un(o, a) : o \in {"neg", "scal", "sscal", "adds", "matvec", "vecmat", "mprod"}, a \in T}
                    \cup {Bin(o, a, b) : o \in {"add", "sub", "mul"}, a \in T, b \in Bodies(0)}

Heads == {"id", "slice", "ell", "rslice", "cat", "pad", "kron", "kronl", "kronr", "diag", "full", "bcast", "bmul", "bsub"}
\* kronl: the documented accumulate idiom  r = kron(None, B); r = kron(r, y)  (kron with an absent first factor copies the second);
\* kronr: kron(B, None)  (each absent-factor branch of kron makes its own copy of the cores, which must stay on the autograd graph)
\* slice: integer on the first mode; ell: t[...] (documented as a copy); rslice: t[0:n-1, ...] (range slice with Ellipsis);
\* bcast / bmul / bsub: B + w, B * w, B - w with w of order d-1 (broadcast over the missing leading mode: each operator has its own branch)
Reds == {"sum", "sum0", "dot", "norm", "norm2", "item", "mask", "bilinear", "wsum"}

\* typing: which reducer applies to which head's result
\*   diag gives an operator (sum / norm / norm2 / wsum only); full gives a dense array (wsum only);
\*   bilinear needs the base shape (head id); everything else gives a tensor
ReducerOK(h, r) ==
    CASE h = "full" -> r = "wsum"
      [] h = "diag" -> r \in {"sum", "norm", "norm2", "wsum"}
      [] OTHER -> (r = "bilinear" => h = "id")

\* an additive constant (t + 1.5) brings unit magnitude back into a program over leaves of magnitude 1e-8: the roundoff of the
\* O(1) intermediates then dominates the tiny gradient, so such programs are not "tiny scale" inputs
RECURSIVE HasAdds(_)
HasAdds(t) == IF t.op \in {"x", "y"} THEN FALSE
              ELSE IF t.op \in {"add", "sub", "mul"} THEN HasAdds(t.a) \/ HasAdds(t.b)
              ELSE t.op = "adds" \/ HasAdds(t.a)
RECURSIVE Uses(_, _)
Uses(t, n) == IF t.op \in {"x", "y"} THEN t.op = n
              ELSE IF t.op \in {"add", "sub", "mul"} THEN Uses(t.a, n) \/ Uses(t.b, n)
              ELSE Uses(t.a, n)

Init == /\ s \in SHAPES /\ body \in Bodies(DEPTH) /\ head \in Heads /\ red \in Reds /\ track \in TRACK
        /\ ReducerOK(head, red)
        /\ (s.scale = "tiny" => ~HasAdds(body))
        \* t - t is identically zero: norm is not differentiable there (and in floating point its value is sqrt of noise)
        \* (the harness applies the same exclusion to bodies that are zero for a deeper reason, e.g. A (x - x): it skips norm
        \*  programs whose dense value is exactly 0)
        /\ ~(body.op = "sub" /\ body.a = body.b /\ red = "norm")
        \* the tracked operand has to occur in the program (otherwise there is nothing to differentiate)
        /\ (track \in {"x", "x0", "xl", "xr", "xw2"} => Uses(body, "x"))
        /\ (track \in {"xl", "xr", "xw2"} => Len(s.N) >= 2)
        /\ (track = "y" => Uses(body, "y") \/ head \in {"cat", "kron", "kronl"})
        \* operands of different order tracked together (watch_list / grad_list over a list of tensors)
        /\ (track = "wx" => head \in {"bcast", "bmul", "bsub"} /\ Uses(body, "x"))
        /\ (head \in {"bcast", "bmul", "bsub"} => Len(s.N) >= 2)
Spec == Init /\ [][FALSE]_vars

WellTyped == ReducerOK(head, red)
=============================================================================
