SPECIFICATION Spec
CONSTANTS
  EN <- T_EN
  MAXLEN = 5
  TH <- MC_TH
INVARIANT PyMeetsContract
INVARIANT CppWithin
CHECK_DEADLOCK FALSE
