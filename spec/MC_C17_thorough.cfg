SPECIFICATION Spec
CONSTANTS
  OPS <- MC_OPS
  SHAPES <- T_SHAPES
  RANKS = {1, 2, 4}
  EPSEXP = {10, 6, 3}
  GUESS = {"none", "fresh", "zero", "exact1", "exact2"}
  SEEDS = {1, 2, 3}
  BACKENDS = {"cpp"}
  PREC = {"none", "c", "r"}
  MAXFULL = {0, 500}
  SOLVER = {1}
  SCALES = {"unit", "small"}
  SYSCLS = {"spd", "diagdom", "laplace", "diagvar"}
  OPTS = {"nswp40", "kick1", "kick22", "iters", "rmax64"}
INVARIANT WellTyped
CHECK_DEADLOCK FALSE
