SPECIFICATION Spec
CONSTANTS
  SHAPES <- MC_SHAPES
  KICKS = {0, 4}
  NSWP = 3
  RX0 = {1, 2, 5}
INVARIANT RanksOK
INVARIANT RowsBound
INVARIANT ExitOK
CHECK_DEADLOCK TRUE
