------------------------------ MODULE TraceLedger -----------------------------
(***************************************************************************)
(* Second level of the trace validation of the DMRG / AMEn sweeps.         *)
(*                                                                         *)
(* TraceDmrg / TraceAmen accept a recorded run iff it is a behaviour of    *)
(* the implementation-shaped sweep models (orthogonalisation pass, order   *)
(* of the positions, supercore sizes, kick rule, rank bookkeeping) AND it  *)
(* respects the accuracy ledger.  Only the ledger is derived from the      *)
(* properties (C11 - C13: the error / residual is at most a small constant *)
(* times eps); the sweep structure is the present implementation's choice. *)
(* A run the structural model rejects is therefore validated again here,   *)
(* against the property-derived laws alone, on a normalised form of the    *)
(* events {swp, last, r, cap, nsv, tail2_L, norm2_L, crit_L, res_tr_L,     *)
(* res_new_L, eps_L} (absent measurements are LZERO / out of range):       *)
(*   LastChop   a step of a `last` sweep that truncates (r below the cap   *)
(*              and below the number of singular values) discards at most  *)
(*              (C eps)^2 |S|^2 / (d-1)                                    *)
(*   ResTrunc   a residual-driven truncation keeps the local residual at   *)
(*              most C max(eps / sqrt d, residual before truncation)       *)
(*   Converged  convergence is declared after a sweep only if every step   *)
(*              of that sweep measured a criterion below C eps             *)
(*   Exit       the routine returns before the sweep budget is used only   *)
(*              after it declared convergence                              *)
(* Accepted here: the run deviates from the sweep model but breaks no      *)
(* property-derived law - reported as "model drift" (a note: the model     *)
(* has to follow the restructured code), not as a violation.               *)
(***************************************************************************)
EXTENDS Dmrg, Json, IOUtils
Traces == JsonDeserialize(IOEnv.TRACE_FILE).traces
NT == Len(Traces)
VARIABLES tid, l
vars == <<tid, l>>
ASSUME \A t \in 1..NT : TLCSet(t, 0)
T == Traces[tid]
EvOf(s) == {j \in 1..Len(T.ev) : T.ev[j].swp = s}
\* convergence was declared after sweep s: a later step ran with last = TRUE although no step of sweep s did, or the routine
\* ended right after sweep s reporting last = TRUE
DeclaredAfter(s) == /\ \A j \in EvOf(s) : ~T.ev[j].last
                    /\ \/ \E j \in EvOf(s + 1) : T.ev[j].last
                       \/ (T.end.sweeps = s + 1 /\ T.end.last)
Init == tid \in 1..NT /\ l = 1
Next ==
    /\ l <= Len(T.ev)
    /\ LET e == T.ev[l] IN
       /\ e.r >= 1
       /\ (e.has_tail /\ e.last /\ e.r < e.cap /\ e.r < e.nsv => LastChopOK(e.tail2_L, e.norm2_L, e.eps_L, T.dm1_L))      \* LastChop
       /\ (e.has_res /\ LMeasured(e.res_tr_L) => ResTruncOK(e.res_tr_L, e.res_new_L, e.eps_L, T.sqrtd_L))                  \* ResTrunc
       /\ (e.has_crit /\ DeclaredAfter(e.swp) => SmallCrit(e.crit_L, e.eps_L))                                               \* Converged
    /\ l' = l + 1
    /\ (TLCGet(tid) < l => TLCSet(tid, l))
    /\ UNCHANGED tid
Finish ==
    /\ l = Len(T.ev) + 1
    /\ (T.end.sweeps < T.nswp => T.end.last)                                                                                  \* Exit
    /\ TLCSet(tid, Len(T.ev) + 1)
    /\ l' = l + 1 /\ UNCHANGED tid
Spec == Init /\ [][Next \/ Finish]_vars
Accepted == LET bad == {t \in 1..NT : TLCGet(t) # Len(Traces[t].ev) + 1} IN
            \/ bad = {}
            \/ (\A t \in bad : PrintT(<<"REJECTED", t, "matched", TLCGet(t), "of", Len(Traces[t].ev) + 1>>)) /\ FALSE
=============================================================================
