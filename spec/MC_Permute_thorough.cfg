SPECIFICATION Spec
CONSTANTS
  MAXD = 6
INVARIANT Sorted
INVARIANT Budget
INVARIANT BudgetEps
CHECK_DEADLOCK TRUE
