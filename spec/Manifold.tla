------------------------------- MODULE Manifold ------------------------------
(***************************************************************************)
(* Equational theory of the tangent-space projector P = P_x (property C16) *)
(*   linear      P(a t + b u) = a P t + b P u                              *)
(*   idempotent  P(P t) = P t                                              *)
(*   fixes x     P x = x                                                   *)
(* over terms built from two arbitrary tensors z, w and the base point x.  *)
(* Every term has a normal form: an integer combination of the atoms       *)
(* z, w, x, Pz, Pw.  TLC enumerates terms (depth <= DEPTH, small integer   *)
(* coefficients) for every base-point structure; the harness evaluates the *)
(* term with the real routines and compares it with the normal form        *)
(* evaluated from the five atoms - equal normal forms must have equal      *)
(* dense values.  The scalar laws  <P t, u> = <t, P u>,  <t - P t, P u> = 0 *)
(* and the rank law  R(P t) <= 2 R(x)  are checked on the same data, and   *)
(* riemannian_gradient(x, f) = P(grad f(x)) for three functions f.         *)
(*                                                                         *)
(* The laws above characterise *an* orthogonal projector whose range       *)
(* contains x.  That it is the projector onto the tangent space at the     *)
(* *current* value of x is stated by two further atoms:                    *)
(*   oracle       P z = Q Q^T z with Q an orthonormal basis of the range   *)
(*                of the Jacobian d full(x) / d cores (built densely by    *)
(*                the harness), and P t = t for tangent vectors t          *)
(*   oracle_upd   the same after the history  project; set_core(0);        *)
(*                project; set_core(d-1)  on the same base-point object:   *)
(*                the projector depends on the value of x only, not on     *)
(*                calls made earlier (no stale state)                      *)
(*   oracle_nc    the same for a base point whose cores have a permuted    *)
(*                memory layout (what round(), t(), permute() and mprod()  *)
(*                return): the value of x matters, not its strides         *)
(***************************************************************************)
EXTENDS Integers, Sequences, FiniteSets, TLC

CONSTANTS STRUCTS,    \* base-point structures [k, N, M, R]
          COEF,       \* coefficients used in linear combinations
          DEPTH

VARIABLES s, term, nf
vars == <<s, term, nf>>

Atom(n) == [op |-> n]
Pt(t) == [op |-> "P", a |-> t]
Lin(ca, a, cb, b) == [op |-> "lin", ca |-> ca, a |-> a, cb |-> cb, b |-> b]

RECURSIVE Terms(_)
Terms(n) == IF n = 0 THEN {Atom("z"), Atom("w"), Atom("x")}
            ELSE LET T == Terms(n - 1) IN
                 T \cup {Pt(t) : t \in T}
                   \cup {Lin(ca, a, cb, b) : ca \in COEF, cb \in COEF, a \in Terms(0) \cup {Pt(u) : u \in Terms(0)}, b \in T}

Zero == [z |-> 0, w |-> 0, x |-> 0, pz |-> 0, pw |-> 0]
RECURSIVE NF(_)
NF(t) ==
    CASE t.op = "z" -> [Zero EXCEPT !.z = 1]
      [] t.op = "w" -> [Zero EXCEPT !.w = 1]
      [] t.op = "x" -> [Zero EXCEPT !.x = 1]
      [] t.op = "P" -> LET n == NF(t.a) IN [z |-> 0, w |-> 0, x |-> n.x, pz |-> n.z + n.pz, pw |-> n.w + n.pw]
      [] t.op = "lin" -> LET n == NF(t.a)  m == NF(t.b) IN
                         [z |-> t.ca * n.z + t.cb * m.z, w |-> t.ca * n.w + t.cb * m.w, x |-> t.ca * n.x + t.cb * m.x,
                          pz |-> t.ca * n.pz + t.cb * m.pz, pw |-> t.ca * n.pw + t.cb * m.pw]

Init == /\ s \in STRUCTS
        /\ term \in Terms(DEPTH) \cup {Atom("grad_quad"), Atom("grad_lin"), Atom("grad_quart"), Atom("scalar_laws"),
                                   Atom("oracle"), Atom("oracle_upd"), Atom("oracle_nc")}
        /\ nf = Zero
Decide == /\ nf = Zero /\ term.op \in {"z", "w", "x", "P", "lin"}
          /\ nf' = NF(term) /\ UNCHANGED <<s, term>>
Spec == Init /\ [][Decide]_vars

\* the theory is consistent with the three laws (checked on every enumerated term)
InTangent(n) == n.z = 0 /\ n.w = 0                    \* images of P contain no unprojected z, w
Laws == term.op \in {"z", "w", "x", "P", "lin"} =>
           /\ NF(Pt(Pt(term))) = NF(Pt(term))          \* idempotent
           /\ InTangent(NF(Pt(term)))
           /\ NF(Pt(Atom("x"))) = NF(Atom("x"))        \* fixes x
=============================================================================
