SPECIFICATION Spec
CONSTANTS
  STRUCTS <- T_STRUCTS
  COEF <- T_COEF
  DEPTH = 2
INVARIANT Laws
CHECK_DEADLOCK FALSE
