SPECIFICATION Spec
CONSTANTS
  MAXD = 4
INVARIANT Sorted
INVARIANT Budget
INVARIANT BudgetEps
CHECK_DEADLOCK TRUE
