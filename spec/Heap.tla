-------------------------------- MODULE Heap --------------------------------
(***************************************************************************)
(* Histories of public calls over a heap of TT objects (properties C05,    *)
(* C06): the state is the list of all objects created so far (with their   *)
(* exact cores) and the history of calls.  Every call either appends its   *)
(* result (operands untouched), returns a number / dense array (heap       *)
(* unchanged), or - for the documented in-place operations set_core and    *)
(* reduce_dims only - replaces exactly one existing object.                *)
(*                                                                         *)
(*   AllWF   (C05)  every object in existence is well formed               *)
(*   Stable  (C06)  a step changes no existing object except the target of *)
(*                  an in-place operation                                  *)
(*                                                                         *)
(* Behaviours (exhaustive to a small depth, random walks beyond) are       *)
(* replayed call by call on torchtt; after every call the projection of    *)
(* *every* live object is compared with the model's heap.                  *)
(***************************************************************************)
EXTENDS TTOps

CONSTANTS HINIT,         \* set of initial heaps (sequences of structures)
          MAXOBJ, MAXDEPTH, MAXRANK,
          HOPS,         \* enabled operation names
          EXPRS(_)      \* index expressions tried on a tensor of a given shape

VARIABLES h0,     \* the initial structures (constant along a behaviour; lets a state be replayed on its own)
          heap, hist
vars == <<h0, heap, hist>>

Step(op, a, n, e) == [op |-> op, a |-> a, n |-> n, e |-> e]

Init == \E h \in HINIT : h0 = h /\ heap = [q \in 1..Len(h) |-> Mk(h[q])] /\ hist = <<>>

New(obj, st)       == heap' = Append(heap, obj) /\ hist' = Append(hist, st)
Keep(st)           == heap' = heap /\ hist' = Append(hist, st)
Mutate(i, obj, st) == heap' = [heap EXCEPT ![i] = obj] /\ hist' = Append(hist, st)

MaxRank(x) == CHOOSE r \in {Ranks(x)[p] : p \in 1..Len(Ranks(x))} : \A p \in 1..Len(Ranks(x)) : Ranks(x)[p] <= r
Small(obj) == MaxRank(obj) <= MAXRANK

Binary ==
    \E i \in 1..Len(heap), j \in 1..Len(heap) :
      LET x == heap[i]  y == heap[j] IN
      \/ /\ x.k = "tt" /\ y.k = "tt" /\ Broadcastable(IDims(y), IDims(x))
         /\ \/ "add" \in HOPS /\ Small(TAdd(x, y)) /\ New(TAdd(x, y), Step("add", <<i, j>>, <<>>, <<>>))
            \/ "sub" \in HOPS /\ Small(TSub(x, y)) /\ New(TSub(x, y), Step("sub", <<i, j>>, <<>>, <<>>))
            \/ "mul" \in HOPS /\ Small(TMul(x, y)) /\ New(TMul(x, y), Step("mul", <<i, j>>, <<>>, <<>>))
      \/ /\ x.k = "ttm" /\ y.k = "ttm" /\ IDims(x) = IDims(y) /\ JDims(x) = JDims(y)
         /\ \/ "add" \in HOPS /\ Small(TAddSame(x, y)) /\ New(TAddSame(x, y), Step("add", <<i, j>>, <<>>, <<>>))
            \/ "sub" \in HOPS /\ Small(TAddSame(x, TNeg(y))) /\ New(TAddSame(x, TNeg(y)), Step("sub", <<i, j>>, <<>>, <<>>))
            \/ "mul" \in HOPS /\ Small(TMulSame(x, y)) /\ New(TMulSame(x, y), Step("mul", <<i, j>>, <<>>, <<>>))
      \/ /\ "matmul" \in HOPS /\ x.k = "ttm" /\ y.k = "tt" /\ JDims(x) = IDims(y) /\ Small(TMatVec(x, y))
         /\ New(TMatVec(x, y), Step("matmul", <<i, j>>, <<>>, <<>>))
      \/ /\ "matmul" \in HOPS /\ x.k = "tt" /\ y.k = "ttm" /\ IDims(x) = IDims(y) /\ Small(TVecMat(x, y))
         /\ New(TVecMat(x, y), Step("matmul", <<i, j>>, <<>>, <<>>))
      \/ /\ "matmul" \in HOPS /\ x.k = "ttm" /\ y.k = "ttm" /\ JDims(x) = IDims(y) /\ Small(TMatMat(x, y, "ttm"))
         /\ New(TMatMat(x, y, "ttm"), Step("matmul", <<i, j>>, <<>>, <<>>))
      \/ /\ "kron" \in HOPS /\ x.k = y.k /\ Order(x) + Order(y) <= 4
         /\ New(TKron(x, y), Step("kron", <<i, j>>, <<>>, <<>>))
      \/ /\ "cat" \in HOPS /\ x.k = "tt" /\ y.k = "tt" /\ Order(x) = Order(y)
         /\ \E ax \in 1..Order(x) :
              /\ \A p \in 1..Order(x) : p # ax => IDims(x)[p] = IDims(y)[p]
              /\ IDims(x)[ax] + IDims(y)[ax] <= 4
              /\ Small(TCat2(x, y, ax))
              /\ New(TCat2(x, y, ax), Step("cat", <<i, j>>, <<ax>>, <<>>))

Unary ==
    \E i \in 1..Len(heap) :
      LET x == heap[i]  d == Order(x) IN
      \/ "neg" \in HOPS /\ New(TNeg(x), Step("neg", <<i>>, <<>>, <<>>))
      \/ "clone" \in HOPS /\ New(x, Step("clone", <<i>>, <<>>, <<>>))
      \/ "conj" \in HOPS /\ New(TConj(x), Step("conj", <<i>>, <<>>, <<>>))
      \/ "t" \in HOPS /\ x.k = "ttm" /\ New(TTranspose(x), Step("t", <<i>>, <<>>, <<>>))
      \/ "to_ttm" \in HOPS /\ x.k = "tt" /\ New(TToTTM(x), Step("to_ttm", <<i>>, <<>>, <<>>))
      \/ "diag" \in HOPS /\ x.k = "tt" /\ Prod(IDims(x)) <= 12 /\ New(TDiagEmbed(x), Step("diag", <<i>>, <<>>, <<>>))
      \/ "diag" \in HOPS /\ x.k = "ttm" /\ IDims(x) = JDims(x) /\ New(TDiagExtract(x), Step("diag", <<i>>, <<>>, <<>>))
      \/ "mul_s" \in HOPS /\ \E s \in {2, 0} :
            New(IF s = 0 THEN TConstLike(x, GZero) ELSE TScale(x, <<s, 0>>), Step("mul_s", <<i>>, <<s>>, <<>>))
      \/ "div_s" \in HOPS /\ New(TNeg(x), Step("div_s", <<i>>, <<-1>>, <<>>))          \* x / (-1)
      \/ "add_s" \in HOPS /\ Small(TAddScalar(x, GOne)) /\ New(TAddScalar(x, GOne), Step("add_s", <<i>>, <<1>>, <<>>))
      \/ "rsub_s" \in HOPS /\ Small(TAddScalar(x, GOne))
            /\ New(TNeg(TAddScalar(x, <<-1, 0>>)), Step("rsub_s", <<i>>, <<1>>, <<>>))  \* 1 - x
      \/ "sum" \in HOPS /\ d >= 2 /\ \E p \in 1..d :
            New(TSumAxes(x, <<p>>), Step("sum", <<i>>, <<p>>, <<>>))
      \/ "index" \in HOPS /\ x.k = "tt" /\ \E e \in EXPRS(IDims(x)) :
            /\ ValidIndex(e, IDims(x)) /\ ~AllInts(e, d)
            /\ New(TIndex(x, e), Step("index", <<i>>, <<>>, e))
      \/ "pad" \in HOPS /\ x.k = "tt" /\ IDims(x)[d] <= 2
            /\ New(TPad0(x, <<<<1, 0>>>>), Step("pad", <<i>>, <<1, 0>>, <<>>))
      \* calls that return a number / dense array: nothing may change
      \/ \E op \in {"full", "norm", "sum_all", "numpy", "repr"} : op \in HOPS /\ Keep(Step(op, <<i>>, <<>>, <<>>))

\* the documented in-place operations
NewCore(c, m, n, f) ==
    MkCore(LRank(c), m, n, RRank(c), LAMBDA a, i, j, b : <<FillRe(f, 3, a, i, j, b), 0>>)
InPlace ==
    \E i \in 1..Len(heap) :
      LET x == heap[i]  d == Order(x) IN
      \/ /\ "set_core" \in HOPS
         /\ \E p \in 1..d, grow \in {0, 1} :
              LET c == x.c[p]
                  nc == NewCore(c, ISize(c) + grow, IF x.k = "tt" THEN 1 ELSE JSize(c) + grow, 7 + grow) IN
              Mutate(i, [x EXCEPT !.c[p] = nc], Step("set_core", <<i>>, <<p, grow>>, <<>>))
      \/ /\ "reduce_dims" \in HOPS
         /\ \E p \in 1..d : ISize(x.c[p]) = 1 /\ JSize(x.c[p]) = 1
         /\ \E ex \in {{}} \cup {{p} : p \in {q \in 1..d : ISize(x.c[q]) = 1 /\ JSize(x.c[q]) = 1}} :
              Mutate(i, TReduceDims(x, ex), Step("reduce_dims", <<i>>, SetToSortSeq(ex, <), <<>>))

Next == Len(hist) < MAXDEPTH /\ Len(heap) < MAXOBJ /\ (Binary \/ Unary \/ InPlace) /\ UNCHANGED h0

Spec == Init /\ [][Next]_vars

\* ------------------------------------------------------------- properties
AllWF == \A i \in 1..Len(heap) : WFObj(heap[i])                                   \* C05
MutatedBy(st) == IF st.op \in {"set_core", "reduce_dims"} THEN {st.a[1]} ELSE {}
Stable == [][\A i \in 1..Len(heap) :                                              \* C06
                i \notin MutatedBy(hist'[Len(hist')]) => heap'[i] = heap[i]]_vars
\* results are new objects appended at the end; the history grows by one call per step
Monotone == [][Len(hist') = Len(hist) + 1 /\ Len(heap') \in {Len(heap), Len(heap) + 1}]_vars
=============================================================================
