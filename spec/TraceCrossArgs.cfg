SPECIFICATION Spec
POSTCONDITION Accepted
CHECK_DEADLOCK FALSE
