------------------------------- MODULE MC_Krylov ------------------------------
EXTENDS Krylov
CONSTANTS DIMS, MAXITS, RESETS
VARIABLES n, maxit, resets, cyc, k, conv, done
vars == <<n, maxit, resets, cyc, k, conv, done>>
Init == /\ n \in DIMS /\ maxit \in MAXITS /\ resets \in RESETS
        /\ cyc = 0 /\ k = 0 /\ conv = FALSE /\ done = FALSE
\* one Arnoldi step; whether the estimate falls below the threshold is the environment's choice
Step == /\ ~done /\ ~conv /\ k < Budget(n, maxit)
        /\ k' = k + 1 /\ conv' \in BOOLEAN
        /\ UNCHANGED <<n, maxit, resets, cyc, done>>
\* the right-hand side of the cycle vanishes: converged without a step
Trivial == /\ ~done /\ ~conv /\ k = 0 /\ conv' = TRUE /\ UNCHANGED <<n, maxit, resets, cyc, k, done>>
EndCycle == /\ ~done /\ (conv \/ k = Budget(n, maxit))
            /\ IF conv \/ cyc = resets - 1
               THEN done' = TRUE /\ UNCHANGED <<cyc, k, conv>>
               ELSE cyc' = cyc + 1 /\ k' = 0 /\ conv' = FALSE /\ UNCHANGED done
            /\ UNCHANGED <<n, maxit, resets>>
Stutter == done /\ UNCHANGED vars
Spec == Init /\ [][Step \/ Trivial \/ EndCycle \/ Stutter]_vars
StepBound == k <= n /\ k <= maxit
ExitOK == done => (conv \/ cyc = resets - 1)
Bounded == cyc <= resets - 1
=============================================================================
