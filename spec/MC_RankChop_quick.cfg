SPECIFICATION Spec
CONSTANTS
  EN <- Q_EN
  MAXLEN = 4
  TH <- MC_TH
INVARIANT PyMeetsContract
INVARIANT CppWithin
CHECK_DEADLOCK FALSE
