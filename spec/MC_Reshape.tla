------------------------------ MODULE MC_Reshape -----------------------------
EXTENDS Reshape
TShapes(SZ, D, MP) == {s \in UNION {[1..d -> {<<n, 1>> : n \in SZ}] : d \in 1..D} : RowProd(s) <= MP}
MShapes(SZ, D, MP) == {s \in UNION {[1..d -> SZ \X SZ] : d \in 1..D} : RowProd(s) <= MP /\ ColProd(s) <= MP /\ ~IsTensor(s)}
Q_SHAPES == TShapes({1, 2, 3, 4, 6}, 3, 24) \cup MShapes({1, 2, 3}, 2, 6)
T_SHAPES == TShapes({1, 2, 3, 4, 6}, 4, 36) \cup MShapes({1, 2, 3, 4}, 3, 8)
=============================================================================
