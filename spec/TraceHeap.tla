------------------------------- MODULE TraceHeap ------------------------------
(***************************************************************************)
(* Trace validation (code -> spec) at descriptor level for arbitrary runs  *)
(* of the library - in particular the repository's own test-suite run      *)
(* under the outside recorder (harness/vf/recorder.py).  One event per     *)
(* outermost public call; "touched" holds the projection [id, k, N, M, R,  *)
(* wf, fp] of every live object whose projection changed since it was last *)
(* logged, of the arguments and of the result.                             *)
(*                                                                         *)
(* heap maps object ids to their last known projection.  An event is a     *)
(* step of the specification iff                                           *)
(*   C05  every touched object is well formed (cores agree with the        *)
(*        reported N, M, R, shape, is_ttm; chain of ranks; boundary 1)     *)
(*   C06  an object already in the heap changes (descriptor or checksum of *)
(*        its cores) only if it is the target of set_core / reduce_dims    *)
(*   law  the result descriptor obeys the descriptor-level law of the      *)
(*        operation (shape rules, rank laws of + - * @ kron, round never   *)
(*        raises a rank, ...); operations without a law only need C05/C06  *)
(***************************************************************************)
EXTENDS Integers, Sequences, FiniteSets, SequencesExt, TLC, Json, IOUtils

Traces == JsonDeserialize(IOEnv.TRACE_FILE).traces
NT == Len(Traces)

VARIABLES tid, l, heap
vars == <<tid, l, heap>>

ASSUME \A t \in 1..NT : TLCSet(t, 0)

T == Traces[tid]
Proj(p) == [k |-> p.k, N |-> p.N, M |-> p.M, R |-> p.R, fp |-> p.fp]
\* products of mode sizes overflow TLC's 32-bit integers (QTT shapes): equality of element counts is checked on the
\* residues modulo two primes below sqrt(2^31) (necessary; sufficient for all practical purposes)
RECURSIVE ProdMod(_, _)
ProdMod(s, p) == IF s = <<>> THEN 1 ELSE ((s[1] % p) * ProdMod(Tail(s), p)) % p
SameCount(a, b) == ProdMod(a, 46337) = ProdMod(b, 46337) /\ ProdMod(a, 46327) = ProdMod(b, 46327)
Le(a, b) == a <= b
Sorted(s) == SortSeq(s, <)
Ones(n) == [p \in 1..n |-> 1]
Interior(r, f(_)) == [p \in 1..Len(r) |-> IF p = 1 \/ p = Len(r) THEN 1 ELSE f(p)]
\* ranks of y after broadcasting to order d (leading unit ranks)
BRanks(ry, d) == [p \in 1..(d + 1) |-> IF p <= d + 1 - Len(ry) THEN 1 ELSE ry[p - (d + 1 - Len(ry))]]

Init == tid \in 1..NT /\ l = 1 /\ heap = <<>>

TouchedOf(e, i) == LET q == CHOOSE q \in 1..Len(e.touched) : e.touched[q].id = i IN Proj(e.touched[q])
IsTouched(e, i) == \E q \in 1..Len(e.touched) : e.touched[q].id = i
Pre(e, i) == IF i \in DOMAIN heap THEN heap[i] ELSE TouchedOf(e, i)        \* projection of an argument before the call

Mutates(e) == IF e.op \in {"TT.set_core", "TT.reduce_dims"} /\ Len(e.args) >= 1 THEN {e.args[1]} ELSE {}

Law(e) ==
    LET r == TouchedOf(e, e.res)
        na == Len(e.args)
        x == Pre(e, e.args[1])
        y == Pre(e, e.args[2])
        d == Len(x.N)
        same == r.k = x.k /\ r.N = x.N /\ r.M = x.M
    IN
    CASE e.op \in {"TT.__add__", "TT.__sub__", "TT.__radd__", "TT.__rsub__"} /\ na = 2 ->
            /\ same
            /\ (x.k = "tt" /\ Len(y.R) <= Len(x.R) => r.R = Interior(x.R, LAMBDA p : x.R[p] + BRanks(y.R, d)[p]))
      [] e.op \in {"TT.__add__", "TT.__sub__", "TT.__radd__", "TT.__rsub__"} /\ na = 1 ->
            same /\ r.R = Interior(x.R, LAMBDA p : x.R[p] + 1)
      [] e.op \in {"TT.__mul__", "TT.__rmul__"} /\ na = 2 ->
            same /\ (x.k = "tt" /\ Len(y.R) <= Len(x.R) => r.R = [p \in 1..Len(x.R) |-> x.R[p] * BRanks(y.R, d)[p]])
      [] e.op \in {"TT.__mul__", "TT.__rmul__"} /\ na = 1 -> same /\ (r.R = x.R \/ r.R = Ones(Len(x.R)))
      [] e.op = "TT.__matmul__" /\ na = 2 ->
            /\ r.R = [p \in 1..Len(x.R) |-> x.R[p] * y.R[p]]
            /\ CASE x.k = "ttm" /\ y.k = "tt" -> r.k = "tt" /\ r.N = x.M
                 [] x.k = "tt" /\ y.k = "ttm" -> r.k = "tt" /\ r.N = y.N
                 [] OTHER -> r.k = "ttm" /\ r.M = x.M /\ r.N = y.N
      [] e.op \in {"TT.__neg__", "TT.__pos__", "TT.clone", "TT.detach", "TT.cpu", "TT.conj", "TT.to"} /\ na = 1 -> same /\ r.R = x.R
      [] e.op = "TT.t" /\ na = 1 -> r.k = "ttm" /\ r.M = x.N /\ r.N = x.M /\ r.R = x.R
      [] e.op = "TT.to_ttm" /\ na = 1 -> r.k = "ttm" /\ r.M = x.N /\ r.N = Ones(d) /\ r.R = x.R
      [] e.op = "TT.round" /\ na = 1 -> same /\ Len(r.R) = Len(x.R) /\ \A p \in 1..Len(x.R) : r.R[p] <= x.R[p]
      [] e.op \in {"TT.__truediv__", "tt.elementwise_divide", "tt.dmrg_hadamard"} /\ na >= 1 -> same
      [] e.op \in {"TT.__pow__", "tt.kron", "TT.__rpow__"} /\ na = 2 ->
            r.k = x.k /\ r.N = x.N \o y.N /\ r.M = x.M \o y.M /\ r.R = SubSeq(x.R, 1, Len(x.R) - 1) \o y.R
      [] e.op \in {"TT.__pow__", "tt.kron", "TT.__rpow__"} /\ na = 1 -> same /\ r.R = x.R
      [] e.op \in {"tt.reshape", "TT.to_qtt", "TT.qtt_to_tens"} /\ na = 1 ->
            r.k = x.k /\ SameCount(r.N, x.N) /\ SameCount(r.M, x.M)
      [] e.op = "tt.permute" /\ na = 1 -> r.k = x.k /\ Sorted(r.N) = Sorted(x.N) /\ Sorted(r.M) = Sorted(x.M)
      [] e.op = "tt.cat" /\ na >= 2 -> r.k = "tt" /\ Len(r.N) = d /\ \A p \in 1..d : r.N[p] >= x.N[p]
      [] e.op = "tt.pad" /\ na = 1 -> r.k = x.k /\ Len(r.N) = d /\ \A p \in 1..d : r.N[p] >= x.N[p]
      [] e.op = "tt.diag" /\ na = 1 -> IF x.k = "tt" THEN r.k = "ttm" /\ r.N = x.N /\ r.M = x.N /\ r.R = x.R
                                         ELSE r.k = "tt" /\ r.N = x.N /\ r.R = x.R
      [] e.op = "TT.mprod" /\ na = 1 -> r.k = "tt" /\ Len(r.N) = d /\ r.R = x.R
      [] e.op \in {"TT.fast_matvec", "tt.amen_mv"} /\ na >= 2 -> r.k = "tt" /\ r.N = x.M
      [] e.op = "tt.amen_mm" /\ na >= 2 -> r.k = "ttm" /\ r.M = x.M /\ r.N = y.N
      [] e.op = "tts.amen_solve" /\ na >= 2 -> r.k = "tt" /\ r.N = y.N
      [] e.op \in {"TT.sum", "TT.__getitem__"} /\ na = 1 -> r.k = x.k
      [] e.op \in {"tt.manifold.riemannian_projection", "tt.manifold.riemannian_gradient"} /\ na >= 1 ->
            same /\ \A p \in 1..Len(x.R) : r.R[p] <= 2 * x.R[p]
      [] OTHER -> TRUE

Next ==
    /\ l <= Len(T.ev)
    /\ LET e == T.ev[l]
           ids == {e.touched[q].id : q \in 1..Len(e.touched)} IN
       /\ e.op # "recorder-error"
       /\ \A q \in 1..Len(e.touched) : e.touched[q].wf                                                  \* C05
       /\ \A q \in 1..Len(e.touched) :                                                                  \* C06
             LET i == e.touched[q].id IN
             i \in DOMAIN heap /\ heap[i] # Proj(e.touched[q]) => i \in Mutates(e)
       /\ (e.exc = "" /\ e.res # 0 /\ IsTouched(e, e.res) /\ \A a \in 1..Len(e.args) : IsTouched(e, e.args[a]) \/ e.args[a] \in DOMAIN heap)
             => Law(e)
       /\ heap' = [i \in DOMAIN heap \cup ids |-> IF i \in ids THEN TouchedOf(e, i) ELSE heap[i]]
    /\ l' = l + 1
    /\ (TLCGet(tid) < l => TLCSet(tid, l))
    /\ UNCHANGED tid
Spec == Init /\ [][Next]_vars

Accepted == LET bad == {t \in 1..NT : TLCGet(t) # Len(Traces[t].ev)} IN
            \/ bad = {}
            \/ (\A t \in bad : PrintT(<<"REJECTED", t, "matched", TLCGet(t), "of", Len(Traces[t].ev)>>)) /\ FALSE
=============================================================================
