-------------------------------- MODULE Effects -------------------------------
(***************************************************************************)
(* The table of public operations x argument positions with the set of     *)
(* arguments each operation may change (property C06).  Only set_core,     *)
(* reduce_dims and grad.watch / unwatch (the requires_grad flag only) may  *)
(* change anything; in particular the optional initial guesses of the      *)
(* iterative routines are arguments like any other.                        *)
(* A state is one call: entry of the table x operand structure x how the   *)
(* optional guess is supplied.  The harness performs the call, then        *)
(* compares every TT argument bitwise (cores, N, M, R, version counters)   *)
(* with its snapshot and re-uses every argument (w + w must still be 2 w). *)
(* Independence: when the call returned a TT object, set_core on that      *)
(* result must change no argument, and set_core on an argument must not    *)
(* change the result obtained earlier (no shared core list).               *)
(***************************************************************************)
EXTENDS Integers, Sequences, FiniteSets, TLC

CONSTANTS SHAPES, GUESS

E(op, args, guess, mut) == [op |-> op, args |-> args, guess |-> guess, mut |-> mut]
\* args: roles of the TT arguments in call order; guess: the routine takes an optional initial guess
Table == {
  E("round", <<"x">>, FALSE, {}), E("round_rmax", <<"x">>, FALSE, {}),
  E("reshape", <<"x">>, FALSE, {}), E("reshape_m", <<"A">>, FALSE, {}),
  E("permute", <<"x">>, FALSE, {}), E("permute_m", <<"A">>, FALSE, {}),
  E("to_qtt", <<"q">>, FALSE, {}), E("qtt_to_tens", <<"q">>, FALSE, {}), E("to_qtt_m", <<"Q">>, FALSE, {}),
  E("fast_matvec", <<"A", "x">>, TRUE, {}), E("dmrg_hadamard", <<"x", "y">>, TRUE, {}),
  E("amen_mv", <<"A", "x">>, TRUE, {}), E("amen_mm", <<"A", "B">>, TRUE, {}),
  E("amen_solve", <<"S", "x">>, TRUE, {}), E("div", <<"x", "p">>, FALSE, {}), E("rdiv", <<"p">>, FALSE, {}),
  E("elementwise_divide", <<"x", "p">>, TRUE, {}),
  E("dmrg_cross", <<>>, TRUE, {}), E("interp_uni", <<"x">>, TRUE, {}), E("interp_multi", <<"x", "y">>, TRUE, {}),
  E("projection", <<"x", "y">>, FALSE, {}), E("projection_m", <<"A", "B">>, FALSE, {}), E("gradient", <<"x">>, FALSE, {}),
  E("dot", <<"x", "y">>, FALSE, {}), E("dot_axes", <<"x", "y">>, FALSE, {}), E("bilinear", <<"x", "S", "y">>, FALSE, {}),
  E("cat", <<"x", "y">>, FALSE, {}), E("pad", <<"x">>, FALSE, {}), E("pad_m", <<"A">>, FALSE, {}), E("diag", <<"x">>, FALSE, {}),
  E("diag_m", <<"S">>, FALSE, {}), E("kron", <<"x", "y">>, FALSE, {}), E("mprod", <<"x">>, FALSE, {}),
  E("apply_mask", <<"x">>, FALSE, {}), E("save_load", <<"x">>, FALSE, {}), E("norm", <<"x">>, FALSE, {}), E("norm_m", <<"A">>, FALSE, {}),
  E("sum", <<"x">>, FALSE, {}), E("sum_axes", <<"x">>, FALSE, {}), E("index", <<"x">>, FALSE, {}), E("index_m", <<"A">>, FALSE, {}),
  E("full", <<"x">>, FALSE, {}), E("numpy", <<"x">>, FALSE, {}), E("repr", <<"x">>, FALSE, {}), E("numel", <<"x">>, FALSE, {}),
  E("clone", <<"x">>, FALSE, {}), E("detach", <<"x">>, FALSE, {}), E("to", <<"x">>, FALSE, {}), E("cpu", <<"x">>, FALSE, {}),
  E("conj", <<"x">>, FALSE, {}), E("t", <<"A">>, FALSE, {}), E("to_ttm", <<"x">>, FALSE, {}),
  E("add", <<"x", "y">>, FALSE, {}), E("sub", <<"x", "y">>, FALSE, {}), E("mul", <<"x", "y">>, FALSE, {}), E("matvec", <<"A", "x">>, FALSE, {}),
  E("matmat", <<"A", "B">>, FALSE, {}), E("div_s", <<"x">>, FALSE, {}), E("mul_s", <<"x">>, FALSE, {}), E("rsub_s", <<"x">>, FALSE, {}),
  E("neg", <<"x">>, FALSE, {}), E("layer", <<>>, FALSE, {}),
  E("mul_s_m", <<"A">>, FALSE, {}), E("rmul_s_m", <<"A">>, FALSE, {}), E("div_s_m", <<"A">>, FALSE, {}), E("add_s_m", <<"A">>, FALSE, {}),
  E("rsub_s_m", <<"A">>, FALSE, {}), E("neg_m", <<"A">>, FALSE, {}), E("add_m", <<"A", "B">>, FALSE, {}), E("mul_m", <<"A", "B">>, FALSE, {}),
  E("radd_s", <<"x">>, FALSE, {}), E("rmul_s", <<"x">>, FALSE, {}), E("sub_s", <<"x">>, FALSE, {}),
  \* neutral scalars (x - 0, 0 - x, x + 0, 1 * x, x / 1, x * 0) and the identity forms of the structural operations
  \* (round at full rank, reshape / permute to the same shape, pad by nothing, x[...], sum over no mode): the natural places for
  \* a shortcut that hands the operand's own core list back
  E("sub_0", <<"x">>, FALSE, {}), E("rsub_0", <<"x">>, FALSE, {}), E("add_0", <<"x">>, FALSE, {}), E("radd_0", <<"x">>, FALSE, {}),
  E("mul_1", <<"x">>, FALSE, {}), E("rmul_1", <<"x">>, FALSE, {}), E("div_1", <<"x">>, FALSE, {}), E("mul_0", <<"x">>, FALSE, {}),
  E("sub_0_m", <<"A">>, FALSE, {}), E("rsub_0_m", <<"A">>, FALSE, {}), E("mul_1_m", <<"A">>, FALSE, {}), E("div_1_m", <<"A">>, FALSE, {}),
  E("reshape_id", <<"x">>, FALSE, {}), E("permute_id", <<"x">>, FALSE, {}), E("pad_none", <<"x">>, FALSE, {}), E("index_all", <<"x">>, FALSE, {}),
  E("index_ell", <<"x">>, FALSE, {}), E("sum_none", <<"x">>, FALSE, {}), E("pos", <<"x">>, FALSE, {}), E("kron_none", <<"x">>, FALSE, {}),
  E("cat_one", <<"x">>, FALSE, {}), E("mprod_none", <<"x">>, FALSE, {}), E("to_same", <<"x">>, FALSE, {}), E("t_t", <<"A">>, FALSE, {}),
  E("conj_real", <<"x">>, FALSE, {}),
  \* the documented in-place operations
  E("set_core", <<"x">>, FALSE, {1}), E("reduce_dims", <<"x">>, FALSE, {1}), E("watch", <<"x">>, FALSE, {1}), E("unwatch", <<"x">>, FALSE, {1}) }

VARIABLES entry, shape, guess
vars == <<entry, shape, guess>>
Init == /\ entry \in Table /\ shape \in SHAPES /\ guess \in GUESS
        /\ (guess # "none" => entry.guess)
        /\ (entry.op \in {"to_qtt", "qtt_to_tens", "to_qtt_m", "dmrg_cross", "interp_uni", "interp_multi", "amen_solve", "layer"} => shape = CHOOSE s \in SHAPES : TRUE)
Spec == Init /\ [][FALSE]_vars

\* the specification of C06 at the level of the table
OnlyDocumentedMutation == entry.mut # {} => entry.op \in {"set_core", "reduce_dims", "watch", "unwatch"}
GuessIsAnArgument == entry.guess => entry.mut = {}
=============================================================================
