SPECIFICATION Spec
CONSTANTS
  SHAPES <- Q_SHAPES
INVARIANT ShapeOK
INVARIANT AllConsumed
INVARIANT Budget
INVARIANT Termination
CHECK_DEADLOCK TRUE
