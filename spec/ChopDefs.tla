------------------------------ MODULE ChopDefs ------------------------------
(***************************************************************************)
(* The tail-energy rank selection used by TT-SVD, rounding, permute, the   *)
(* DMRG sweeps and cross approximation (torchtt/_decomposition.rank_chop   *)
(* and cpp/ortho.h rank_chop), over exact integers.                        *)
(*                                                                         *)
(* A spectrum is a non-increasing sequence e of *energies* (squared        *)
(* singular values, naturals).  The threshold is the rational  thn/thd     *)
(* (an energy).  TailE(e, r) is the energy discarded when r values are kept.*)
(*                                                                         *)
(* ChopPy / ChopCpp transcribe the two implementations branch by branch;   *)
(* ChopContract is what every caller relies on.                            *)
(***************************************************************************)
EXTENDS Integers, Sequences, FiniteSets, SequencesExt, TLC

IAdd(a, b) == a + b
SumSeq(s) == FoldLeft(IAdd, 0, s)
TailE(e, r) == SumSeq(SubSeq(e, r + 1, Len(e)))            \* energy of e[r+1..n]
NonIncreasing(e) == \A k \in 1..(Len(e) - 1) : e[k] >= e[k + 1]
NNonZero(e) == Cardinality({k \in 1..Len(e) : e[k] > 0})

\* tail energy <= threshold, as integers
Within(e, r, thn, thd) == TailE(e, r) * thd <= thn
Above(x, thn, thd) == x * thd > thn

\* ---- torchtt/_decomposition.py rank_chop(s, eps)   (threshold energy = eps**2)
\*   if norm(s) == 0: return 1
\*   if eps <= 0: return s.size
\*   sc = reversed cumulative sums (sc[k] = tail energy from position k, 0-based)
\*   R = argmax(sc <= eps**2)   (first k whose tail is within the threshold; 0 if there is none)
\*   R = R if R > 0 else 1
\*   R = s.size if sc[-1] > eps**2 else R
ChopPy(e, thn, thd) ==
    LET n == Len(e) IN
    IF SumSeq(e) = 0 THEN 1
    ELSE IF thn <= 0 THEN n
    ELSE LET hits == {k \in 0..(n - 1) : Within(e, k, thn, thd)}          \* k = number of values kept
             R0 == IF hits = {} THEN 0 ELSE CHOOSE k \in hits : \A j \in hits : k <= j
             R1 == IF R0 > 0 THEN R0 ELSE 1
         IN IF Above(e[n], thn, thd) THEN n ELSE R1

\* the same routine before the repair of the threshold tie (strict comparison): kept to document, and to
\* let TLC exhibit, the class of inputs on which it broke the contract
ChopPyStrict(e, thn, thd) ==
    LET n == Len(e) IN
    IF SumSeq(e) = 0 THEN 1
    ELSE IF thn <= 0 THEN n
    ELSE LET hits == {k \in 0..(n - 1) : TailE(e, k) * thd < thn}
             R0 == IF hits = {} THEN 0 ELSE CHOOSE k \in hits : \A j \in hits : k <= j
             R1 == IF R0 > 0 THEN R0 ELSE 1
         IN IF Above(e[n], thn, thd) THEN n ELSE R1

\* ---- cpp/ortho.h rank_chop(s, eps):
\*   r = n - 1;  if (norm(s) == 0) return 1;  if (eps <= 0) return r;          (n - 1, not n: see DESIGN.md)
\*   while (r > 0) { sum = s[r]^2 + ... + s[n-1]^2;  if (sum >= eps^2) break;  r--; }
\*   r++;  return max(r, 1)
ChopCpp(e, thn, thd) ==
    LET n == Len(e) IN
    IF SumSeq(e) = 0 THEN 1
    ELSE IF thn <= 0 THEN n - 1
    ELSE LET stops == {r \in 1..(n - 1) : TailE(e, r) * thd >= thn}       \* the loop breaks at the largest such r
             r == IF stops = {} THEN 0 ELSE CHOOSE x \in stops : \A y \in stops : y <= x
         IN r + 1

\* ---- the contract
\*  (a) 1 <= r <= n
\*  (b) the discarded energy is within the threshold (thn >= 0)
\*  (c) r is not larger than needed: keeping r-1 values would exceed the threshold, or r = 1
\*      (this gives "rank <= exact rank": zero values are never kept beyond the first)
ChopOK(e, thn, thd, r) ==
    /\ r >= 1 /\ r <= Len(e)
    /\ Within(e, r, thn, thd)
ChopMinimal(e, thn, thd, r) == r = 1 \/ ~Within(e, r - 1, thn, thd)
ChopContract(e, thn, thd, r) == ChopOK(e, thn, thd, r) /\ ChopMinimal(e, thn, thd, r)

=============================================================================
