SPECIFICATION Spec
CONSTANTS
  CFGS <- Q_CFGS
  SPECTRA <- Q_SPECTRA
  INFL = {0, 1, 2}
  NESTEDONLY = TRUE
INVARIANT ErrBound
INVARIANT RankBound
INVARIANT Energy
CHECK_DEADLOCK FALSE
