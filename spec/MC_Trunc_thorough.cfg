SPECIFICATION Spec
CONSTANTS
  CFGS <- T_CFGS
  SPECTRA <- T_SPECTRA
  INFL = {0, 2}
  NESTEDONLY = TRUE
INVARIANT ErrBound
INVARIANT RankBound
INVARIANT Energy
CHECK_DEADLOCK FALSE
