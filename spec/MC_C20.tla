------------------------------- MODULE MC_C20 -------------------------------
EXTENDS Alg
\* layers: size_out x size_in of 1..3 modes over {1,2,3,5} rectangular (order 1-2 exhaustive over {1,2,3}),
\* canonical order-3/4 with pairwise distinct sizes and ranks
SmallM(RS) == UNION { UNION { {StM(mn[1], mn[2], R, 1, FALSE) : R \in RankProfiles(d, RS)} :
                               mn \in SeqsOf({1, 2, 3}, d) \X SeqsOf({1, 2, 3}, d) } : d \in 1..2 }
CanonM == { StM(<<2, 3, 2>>, <<3, 1, 2>>, <<1, 2, 3, 1>>, 1, FALSE), StM(<<5, 2>>, <<3, 5>>, <<1, 3, 1>>, 1, FALSE),
            StM(<<2, 1, 2, 2>>, <<1, 3, 2, 1>>, <<1, 2, 3, 2, 1>>, 1, FALSE), StM(<<1, 5>>, <<2, 1>>, <<1, 2, 1>>, 1, FALSE),
            StM(<<3, 2, 1>>, <<2, 2, 5>>, <<1, 3, 2, 1>>, 1, FALSE) }
Q_MS == SmallM({1, 2}) \cup CanonM
T_MS == SmallM({1, 2, 3}) \cup CanonM
Q_TS == {}
T_TS == {}
MC_SC == {}
MC_OPS == {"layer"}
MC_BATCH == {<<>>, <<2>>, <<2, 3>>, <<2, 1, 3>>}
MC_ITEMS(n, d) == {}
MC_WIDTHS == {}
=============================================================================
