------------------------------ MODULE TraceTrunc ------------------------------
(***************************************************************************)
(* Trace validation (code -> spec) of the truncation sweeps: the hooks in  *)
(* torchtt/_decomposition.py (to_tt, round_tt; enabled by TORCHTT_VERIF=1) *)
(* emit one event per bond with the squared norm of the current spectrum,  *)
(* the per-bond tolerance actually used, the cap, the chosen rank and the  *)
(* discarded energy.  The harness adds, from outside, the requested eps,   *)
(* the total energy of the input and the measured squared error.           *)
(*                                                                         *)
(* All magnitudes are logarithms scaled to integers, L(x) = floor(1024 *   *)
(* log2 x) (and a large negative number for 0), because the comparisons of *)
(* the ledger are multiplicative and span 40 decades.                      *)
(*                                                                         *)
(* A trace is accepted iff every event is a step of the ledger model:      *)
(*   Order     every bond is visited exactly once (in whatever order the   *)
(*             routine sweeps: the direction is not part of the property)  *)
(*   RankOK    1 <= r <= min(#singular values, cap)                        *)
(*   ChopOK    discarded energy <= (per-bond tolerance)^2 * |spectrum|^2   *)
(*             unless the cap was binding                                  *)
(*   Split     (per-bond tolerance)^2 <= eps^2: no bond may spend more than *)
(*             the whole budget (how the budget is split over the bonds is *)
(*             the routine's choice - equal shares, or shares that carry   *)
(*             over what earlier bonds did not spend)                      *)
(*   Budget    the energy discarded so far, summed over the bonds seen,    *)
(*             <= eps^2 * total energy, unless a cap was binding           *)
(*   Remainder |spectrum|^2 <= total energy                                *)
(*   End       all d-1 bonds seen and, if no cap was binding, the measured *)
(*             squared error <= eps^2 * total                              *)
(***************************************************************************)
EXTENDS Integers, Sequences, FiniteSets, TLC, Json, IOUtils

Traces == JsonDeserialize(IOEnv.TRACE_FILE).traces
NT == Len(Traces)
SLACK == 16            \* 1.1 % on energies (roundoff of the logged floats and of the logarithm)
ZERO == -1073741824     \* L(0)
\* floor(1024 log2 n) for n = 1..8
LOGN == <<0, 1024, 1623, 2048, 2377, 2647, 2874, 3072>>
LogInt(n) == IF n <= 8 THEN LOGN[n] ELSE 3072 + 1024      \* d - 1 <= 8 in every recorded run; larger: over-estimate

\* a lower estimate of L(x + y) from L(x), L(y): max + floor(1024 log2(1 + 2^-(q+1))) with q = floor(difference / 1024)
LADD == <<599, 329, 173, 89, 45, 22, 11, 5, 2, 1>>
LAdd(a, b) == LET hi == IF a >= b THEN a ELSE b  lo == IF a >= b THEN b ELSE a  q == (hi - lo) \div 1024 IN
              IF lo = ZERO \/ q >= 10 THEN hi ELSE hi + LADD[q + 1]

VARIABLES tid, l, capped, spent
vars == <<tid, l, capped, spent>>

ASSUME \A t \in 1..NT : TLCSet(t, 0)

T == Traces[tid]
Init == tid \in 1..NT /\ l = 1 /\ capped = FALSE /\ spent = ZERO

StepOK(e) ==
    /\ e.bond >= 1 /\ e.bond <= T.d - 1 /\ \A j \in 1..(l - 1) : T.ev[j].bond # e.bond   \* Order: every bond once, in any order
    /\ e.r >= 1 /\ e.r <= e.nsv /\ e.r <= e.cap                                      \* RankOK
    /\ (e.r < e.cap \/ e.r = e.nsv => e.tail_L <= e.thr_L + SLACK)                   \* ChopOK
    /\ (e.epsb2_L = ZERO \/ e.epsb2_L <= T.eps2_L + SLACK)                             \* Split
    /\ e.norm_L <= T.total_L + SLACK                                                  \* Remainder
Next ==
    /\ l <= Len(T.ev)
    /\ StepOK(T.ev[l])
    /\ capped' = (capped \/ (T.ev[l].r = T.ev[l].cap /\ T.ev[l].r < T.ev[l].nsv))
    /\ spent' = LAdd(spent, T.ev[l].tail_L)
    /\ (capped' \/ spent' = ZERO \/ spent' <= T.eps2_L + T.total_L + 2 * SLACK)        \* Budget
    /\ l' = l + 1
    /\ (TLCGet(tid) < l => TLCSet(tid, l))
    /\ UNCHANGED tid
\* the end of the trace: every bond was seen and the measured error respects the budget
Finish ==
    /\ l = Len(T.ev) + 1 /\ l >= 1
    /\ Len(T.ev) = (IF T.d >= 1 THEN T.d - 1 ELSE 0)
    /\ (capped \/ T.err2_L = ZERO \/ T.err2_L <= T.eps2_L + T.total_L + SLACK \/ T.err2_L <= T.total_L - 90000)   \* (or below roundoff: 2^-88 of the total)
    /\ TLCSet(tid, Len(T.ev) + 1)
    /\ l' = l + 1 /\ UNCHANGED <<tid, capped, spent>>
Spec == Init /\ [][Next \/ Finish]_vars

\* acceptance: register = number of events + 1 (the Finish step was taken)
Accepted == LET bad == {t \in 1..NT : TLCGet(t) # Len(Traces[t].ev) + 1} IN
            \/ bad = {}
            \/ (\A t \in bad : PrintT(<<"REJECTED", t, "matched", TLCGet(t), "of", Len(Traces[t].ev) + 1>>)) /\ FALSE
=============================================================================
