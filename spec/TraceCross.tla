------------------------------ MODULE TraceCross -----------------------------
(***************************************************************************)
(* Trace validation (code -> spec) for the cross approximation routines:   *)
(* every call of the user function made by a real run of dmrg_cross /      *)
(* function_interpolate is one logged event                                *)
(*     [rows, ncols, isint, inrange]                                       *)
(* (inrange: every column j of the index matrix lies in [0, N[j]) - resp.  *)
(* for function_interpolate: every value row occurs among the entries of   *)
(* the argument tensors at one common multi-index).  The trace is accepted *)
(* iff the sequence of row counts is explained by the bookkeeping model    *)
(* spec/Cross.tla for *some* choice of the truncation ranks (TLC infers    *)
(* them), every step is conformable, and every event is well formed.       *)
(* Many traces are validated in one run: tid selects the trace, register   *)
(* tid records the furthest event matched.                                 *)
(***************************************************************************)
EXTENDS Cross, Json, IOUtils

Traces == JsonDeserialize(IOEnv.TRACE_FILE).traces
NT == Len(Traces)

VARIABLES tid, l, rank, k, dir
vars == <<tid, l, rank, k, dir>>

ASSUME \A t \in 1..NT : TLCSet(t, 0)

T == Traces[tid]
Init == /\ tid \in 1..NT /\ l = 1
        /\ rank = SweepInit0(Traces[tid].N, Traces[tid].rank0)
        /\ k = 0 /\ dir = "LR"

Next ==
    /\ l <= Len(T.ev)
    /\ LET e == T.ev[l]  N == T.N  d == Len(T.N)
           rows == SRows(N, rank, k)  cols == SCols(N, rank, k)
           smax == Min2(rows, cols) IN
       /\ e.rows = EvalRows(N, rank, k)           \* the number of sampled indices is what the bookkeeping says
       /\ e.ncols = d /\ e.isint /\ e.inrange      \* well-formed argument of the user function (property C14)
       /\ \E rn \in 1..smax :
             LET kk == Kick(IF dir = "LR" THEN rows ELSE cols, rn, T.kick) IN
             /\ kk[2]                                \* conformable
             /\ rank' = [rank EXCEPT ![k + 2] = kk[1]]
       /\ IF dir = "LR"
          THEN IF k < d - 2 THEN k' = k + 1 /\ UNCHANGED dir ELSE k' = d - 2 /\ dir' = "RL"
          ELSE IF k > 0 THEN k' = k - 1 /\ UNCHANGED dir ELSE k' = 0 /\ dir' = "LR"
    /\ l' = l + 1
    /\ (TLCGet(tid) < l => TLCSet(tid, l))
    /\ UNCHANGED tid
Spec == Init /\ [][Next]_vars

\* acceptance: every trace was matched to its end (register = number of events)
Accepted == LET bad == {t \in 1..NT : TLCGet(t) # Len(Traces[t].ev)} IN
            \/ bad = {}
            \/ (\A t \in bad : PrintT(<<"REJECTED", t, "matched", TLCGet(t), "of", Len(Traces[t].ev)>>)) /\ FALSE
=============================================================================
