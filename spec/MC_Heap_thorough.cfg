SPECIFICATION Spec
CONSTANTS
  HINIT <- T_HINIT
  MAXOBJ = 6
  MAXDEPTH = 3
  MAXRANK = 6
  HOPS <- MC_HOPS
  EXPRS <- MC_EXPRS
INVARIANT AllWF
PROPERTY Stable
PROPERTY Monotone
CHECK_DEADLOCK FALSE
