------------------------------- MODULE MC_Cross ------------------------------
(* exhaustive exploration of the bookkeeping over small shapes, both sweep directions, every rank choice *)
EXTENDS Cross
CONSTANTS SHAPES, KICKS, NSWEEPS, R0
VARIABLES N, kick, rank, nidx, k, dir, swp, conf
vars == <<N, kick, rank, nidx, k, dir, swp, conf>>

Init == /\ N \in SHAPES /\ kick \in KICKS
        /\ \E r0 \in R0 : rank = SweepInit0(N, [j \in 1..(Len(N) + 1) |-> IF j = 1 \/ j = Len(N) + 1 THEN 1 ELSE r0])
        /\ nidx = rank
        /\ k = 0 /\ dir = "LR" /\ swp = 1 /\ conf = TRUE

Step ==
    /\ swp <= NSWEEPS
    /\ LET d == Len(N)
           rows == SRows(N, rank, k)  cols == SCols(N, rank, k)
           smax == Min2(rows, cols) IN
       \E rn \in 1..smax :
          LET kk == Kick(IF dir = "LR" THEN rows ELSE cols, rn, kick) IN
          /\ rank' = [rank EXCEPT ![k + 2] = kk[1]]
          /\ nidx' = [nidx EXCEPT ![k + 2] = kk[1]]
          /\ conf' = (conf /\ kk[2])
    /\ IF dir = "LR"
       THEN IF k < Len(N) - 2 THEN k' = k + 1 /\ UNCHANGED <<dir, swp>>
            ELSE k' = Len(N) - 2 /\ dir' = "RL" /\ UNCHANGED swp
       ELSE IF k > 0 THEN k' = k - 1 /\ UNCHANGED <<dir, swp>>
            ELSE k' = 0 /\ dir' = "LR" /\ swp' = swp + 1
    /\ UNCHANGED <<N, kick>>
Spec == Init /\ [][Step]_vars

Conformable == conf
IdxCovers == \A j \in 1..(Len(N) + 1) : nidx[j] = rank[j]
\* the start ranks handed to the index-set loop are admissible (whatever the ranks of the start tensor)
StartAdmissible == (k = 0 /\ dir = "LR" /\ swp = 1) => Admissible(N, rank)
RanksValid == /\ rank[1] = 1 /\ rank[Len(N) + 1] = 1
              /\ \A j \in 1..(Len(N) + 1) : rank[j] >= 1
Q_SHAPES == {<<2, 2>>, <<2, 3>>, <<3, 3, 3>>, <<2, 3, 4>>, <<5, 4, 3>>, <<2, 2, 2, 2>>, <<20, 20>>, <<6, 7>>, <<20, 2, 20>>}
T_SHAPES == Q_SHAPES \cup {<<3, 2, 5, 2>>, <<2, 2, 2, 2, 2>>, <<4, 20, 3>>}
=============================================================================
