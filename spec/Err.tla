--------------------------------- MODULE Err --------------------------------
(***************************************************************************)
(* The error side of the operation table (property C18): for every public  *)
(* entry point, the classes of incompatible arguments.  A state is one     *)
(* call with incompatible arguments; the expected outcome is "raises"      *)
(* (doc = TRUE when the docstring of the entry point names the case, then  *)
(* the exception has to be one of the library's classes).                  *)
(*                                                                         *)
(* TLC checks on the model that every enumerated case really has no dense  *)
(* counterpart (invariant Incompatible) - so the table can never demand an *)
(* exception for a call that torch-style broadcasting would accept.        *)
(***************************************************************************)
EXTENDS TTOps

CONSTANTS TS, MS      \* structures (tensors / operators)

VARIABLES case, res
vars == <<case, res>>

Init == /\ \E x \in TS \cup MS : case = [op |-> "init", cls |-> "", x |-> x]
        /\ res = [doc |-> FALSE, incompat |-> TRUE]

Second(y) == [y EXCEPT !.f = y.f + 1]
\* torch broadcasting of two shapes fails: some trailing-aligned pair differs and neither is 1
TorchCompatible(a, b) ==
    LET n == Min2(Len(a), Len(b)) IN
    \A q \in 1..n : LET u == a[Len(a) - q + 1]  v == b[Len(b) - q + 1] IN u = v \/ u = 1 \/ v = 1

\* every case with a second operand y also exists with y exactly zero (fill 0): a shortcut for zero operands must not
\* come before the guards
C(op, cls, x, extra, doc, incompat) ==
    \E zy \in BOOLEAN :
       /\ (zy => "y" \in DOMAIN extra)
       /\ case' = [op |-> op, cls |-> cls, x |-> x] @@ (IF zy THEN [extra EXCEPT !.y = [extra.y EXCEPT !.f = 0]] ELSE extra)
       /\ res' = [doc |-> doc, incompat |-> incompat]

\* ---------------------------------------------------------------- families
ShapeMismatchTT(x) ==      \* + - * between tensors whose shapes cannot be broadcast in either direction
    /\ x.k = "tt"
    /\ \E y0 \in TS, op \in {"add", "sub", "mul"} :
         /\ y0.cx = x.cx /\ ~TorchCompatible(x.I, y0.I)
         /\ C(op, "shape", x, [y |-> Second(y0)], TRUE, ~TorchCompatible(x.I, y0.I))
ShapeMismatchTTM(x) ==     \* + - * between operators with different mode sizes (no broadcasting documented)
    /\ x.k = "ttm"
    /\ \E y0 \in MS, op \in {"add", "sub", "mul"} :
         /\ y0.cx = x.cx /\ Len(y0.I) = Len(x.I)
         /\ ~TorchCompatible(x.I \o x.J, y0.I \o y0.J)
         /\ C(op, "shape", x, [y |-> Second(y0)], TRUE, ~TorchCompatible(x.I \o x.J, y0.I \o y0.J))
KindMismatch(x) ==         \* tensor with operator
    \E y0 \in TS \cup MS, op \in {"add", "sub", "mul", "kron", "truediv"} :
         /\ y0.cx = x.cx /\ y0.k # x.k
         /\ C(op, "kind", x, [y |-> Second(y0)], TRUE, TRUE)
MatmulMismatch(x) ==
    \/ /\ x.k = "ttm"
       /\ \E y0 \in TS : y0.cx = x.cx /\ Len(y0.I) = Len(x.I) /\ y0.I # x.J
                         /\ C("matmul", "shape", x, [y |-> Second(y0)], TRUE, TRUE)
    \/ /\ x.k = "ttm"       \* the DMRG product takes the same operands as A @ x (a singleton mode is not broadcast)
       /\ \E y0 \in TS : y0.cx = x.cx /\ Len(y0.I) = Len(x.I) /\ y0.I # x.J
                         /\ C("fast_matvec", "shape", x, [y |-> Second(y0)], TRUE, TRUE)
    \/ /\ x.k = "ttm"
       /\ \E y0 \in MS : y0.cx = x.cx /\ Len(y0.I) = Len(x.I) /\ y0.I # x.J
                         /\ C("matmul", "shape", x, [y |-> Second(y0)], TRUE, TRUE)
    \/ /\ x.k = "tt"
       /\ \E y0 \in MS : y0.cx = x.cx /\ Len(y0.I) = Len(x.I) /\ y0.I # x.I
                         /\ C("matmul", "shape", x, [y |-> Second(y0)], TRUE, TRUE)
    \* operands of different order (a prefix of the longer one may well match, and its next bond may have rank one)
    \/ /\ x.k = "ttm"
       /\ \E y0 \in TS \cup MS, op \in {"matmul", "fast_matvec", "amen_mv"} :
             /\ y0.cx = x.cx /\ Len(y0.I) # Len(x.I) /\ (op # "matmul" => y0.k = "tt")
             /\ C(op, "order", x, [y |-> Second(y0)], FALSE, TRUE)
    \/ /\ x.k = "tt"
       /\ \E y0 \in MS : y0.cx = x.cx /\ Len(y0.I) # Len(x.I) /\ C("matmul", "order", x, [y |-> Second(y0)], FALSE, TRUE)
    \/ /\ x.k = "tt"       \* tensor @ tensor is not defined
       /\ \E y0 \in TS : y0.cx = x.cx /\ C("matmul", "kind", x, [y |-> Second(y0)], TRUE, TRUE)
    \/ /\ x.k = "ttm"      \* operator @ dense array whose trailing modes do not match
       /\ C("matdense", "shape", x, [bad |-> [p \in 1..Len(x.J) |-> x.J[p] + 1]], TRUE, TRUE)
\* arguments of the wrong type: tp names a python value the harness substitutes
WrongType(x) ==
    \E op \in {"add", "sub", "mul", "truediv", "matmul", "kron", "pow", "dot", "bilinear", "fast_matvec", "cat_elem",
               "diag", "permute_input", "save", "mprod_args", "sum_index", "index_item", "qtt_shape"},
       tp \in {"none", "str", "list"} :
         /\ (op \in {"pow", "kron"} => tp # "none")          \* None is the documented neutral element of kron / **
         /\ (op = "sum_index" => tp = "str") /\ (op = "qtt_shape" => tp \in {"str", "none"})
         /\ C(op, "type", x, [tp |-> tp],
              op \in {"sub", "mul", "truediv", "kron", "pow", "dot", "bilinear", "fast_matvec", "diag", "permute_input", "save",
                      "mprod_args", "sum_index", "index_item", "qtt_shape", "add"}, TRUE)
WrongKindUnary(x) ==
    \/ x.k = "tt" /\ C("t", "kind", x, <<>>, TRUE, TRUE)                       \* transpose of a tensor
    \/ x.k = "ttm" /\ C("mprod", "kind", x, <<>>, TRUE, TRUE)
    \/ x.k = "ttm" /\ C("cat", "kind", x, <<>>, TRUE, TRUE)
    \/ x.k = "ttm" /\ C("dot", "kind", x, <<>>, TRUE, TRUE)
    \/ x.k = "tt" /\ C("M", "kind", x, <<>>, TRUE, TRUE)                       \* .M of a tensor
    \/ x.k = "tt" /\ C("bilinear", "kind", x, <<>>, TRUE, TRUE)                \* bilinear_form(x, x, x)
    \/ x.k = "tt" /\ C("fast_matvec", "kind", x, <<>>, TRUE, TRUE)             \* tensor.fast_matvec(tensor)
    \/ x.k = "ttm" /\ x.I # x.J /\ C("to_qtt", "shape", x, <<>>, TRUE, TRUE)   \* only square operators
AxisRange(x) ==
    LET d == Len(x.I) IN
    \/ \E a \in {d, d + 3} : C("sum", "axis", x, [axes |-> <<a>>], TRUE, TRUE)               \* 0-based, out of range
    \/ d >= 2 /\ C("sum", "axis", x, [axes |-> <<0, d>>], TRUE, TRUE)
    \/ x.k = "tt" /\ \E a \in {d, d + 2, -1} : C("cat", "axis", x, [y |-> Second(x), ax |-> a], TRUE, TRUE)   \* concatenation axis out of range
    \/ C("set_core", "axis", x, [p |-> d], TRUE, TRUE)
    \/ C("set_core", "axis", x, [p |-> -1], TRUE, TRUE)
    \* a negative position with a core that would fit "from the end" (the last core's shape) or that fits the boundary
    \* ranks (1, n, 1): positions are 0 .. d-1, anything else is rejected whatever the core
    \/ C("set_core", "axis_neg_last", x, [p |-> -1], TRUE, TRUE)
    \/ C("set_core", "axis_neg_unit", x, [p |-> -1], TRUE, TRUE)
    \/ C("set_core", "rank", x, [p |-> 0], TRUE, TRUE)                                       \* core with wrong ranks
    \/ C("set_core", "ndim", x, [p |-> 0], TRUE, TRUE)                                       \* 3-d core into operator and v.v.
    \/ x.k = "tt" /\ C("mprod", "shape", x, [p |-> 0], TRUE, TRUE)                           \* factor matrix with wrong 2nd size
    \/ x.k = "tt" /\ C("pad", "count", x, <<>>, TRUE, TRUE)                                  \* more paddings than modes
PermuteBad(x) ==
    LET d == Len(x.I) IN
    /\ d >= 2
    /\ \/ C("permute", "length", x, [dims |-> [p \in 1..(d - 1) |-> p - 1]], TRUE, TRUE)
       \/ C("permute", "duplicate", x, [dims |-> [p \in 1..d |-> IF p = d THEN 0 ELSE p - 1]], TRUE, TRUE)
       \/ C("permute", "range", x, [dims |-> [p \in 1..d |-> p]], TRUE, TRUE)
ReshapeBad(x) ==
    \/ x.k = "tt" /\ C("reshape", "numel", x, [shape |-> x.I \o <<2>>], TRUE, TRUE)
    \/ x.k = "ttm" /\ C("reshape", "numel", x, [shape |-> <<>>], TRUE, TRUE)     \* harness: [(M1*2, N1)] + rest
    \/ x.k = "tt" /\ Prod(x.I) > 1 /\ C("qtt_to_tens", "numel", x, [shape |-> <<Prod(x.I) + 1>>], TRUE, TRUE)
    \* a requested size strictly between two reachable products of consecutive modes (the group count still matches)
    \/ x.k = "tt" /\ Len(x.I) >= 2 /\ x.I[1] * (x.I[2] - 1) > 1
       /\ C("qtt_to_tens", "between", x, [shape |-> <<x.I[1] * x.I[2] - 1>> \o SubSeq(x.I, 3, Len(x.I))], TRUE, TRUE)
    \/ x.k = "tt" /\ (\E p \in 1..Len(x.I) : x.I[p] = 3) /\ C("to_qtt", "power", x, <<>>, TRUE, TRUE)
    \* the optional mode_size: a mode that is neither 1 nor a power of mode_size (here 2 or 4 with mode_size = 3)
    \/ x.k = "tt" /\ (\E p \in 1..Len(x.I) : x.I[p] \in {2, 4}) /\ C("to_qtt_ms3", "power", x, <<>>, TRUE, TRUE)
IndexBad(x) ==
    LET d == Len(x.I) IN
    \/ x.k = "tt" /\ C("index", "too_many", x, [n |-> d + 1], FALSE, TRUE)         \* d+1 integer indices (IndexError, as numpy)
    \/ x.k = "tt" /\ C("index", "range", x, [n |-> x.I[1]], FALSE, TRUE)           \* integer index = size (out of range)
    \/ x.k = "tt" /\ C("index", "two_ellipsis", x, <<>>, TRUE, TRUE)
    \/ x.k = "ttm" /\ C("index", "ellipsis_ttm", x, <<>>, TRUE, TRUE)
    \/ x.k = "ttm" /\ C("index", "pair_kinds", x, <<>>, TRUE, TRUE)                \* (int, slice) pair
    \/ x.k = "ttm" /\ C("index", "too_few", x, <<>>, TRUE, TRUE)
    \/ x.k = "tt" /\ d >= 2 /\ C("index", "bare_int", x, <<>>, TRUE, TRUE)         \* x[0] on order >= 2
    \/ x.k = "tt" /\ d >= 2 /\ C("index", "short", x, <<>>, TRUE, TRUE)            \* a tuple of d-1 integers ("Slice size is invalid")
    \/ x.k = "tt" /\ d >= 3 /\ C("index", "short_slices", x, <<>>, TRUE, TRUE)     \* a tuple of d-1 slices
    \/ x.k = "tt" /\ d >= 2 /\ C("index", "bare_slice", x, <<>>, TRUE, TRUE)
    \/ x.k = "tt" /\ C("apply_mask", "range", x, <<>>, FALSE, TRUE)
DotBad(x) ==
    /\ x.k = "tt"
    /\ \/ \E y0 \in TS : y0.cx = x.cx /\ y0.I # x.I /\ C("dot", "shape", x, [y |-> Second(y0)], TRUE, TRUE)
       \/ \E y0 \in TS : y0.cx = x.cx /\ Len(y0.I) > Len(x.I)
                         /\ C("dot_axes", "order", x, [y |-> Second(y0), axes |-> [p \in 1..Len(x.I) |-> p - 1]], TRUE, TRUE)
       \/ \E A0 \in MS : A0.cx = x.cx /\ Len(A0.I) = Len(x.I) /\ (A0.I # x.I \/ A0.J # x.I)
                         /\ C("bilinear", "shape", x, [y |-> Second(A0)], TRUE, TRUE)
CatBad(x) ==
    /\ x.k = "tt"
    /\ \E y0 \in TS, ax \in 1..Len(x.I) :
         /\ y0.cx = x.cx
         /\ \/ Len(y0.I) # Len(x.I)
            \/ Len(y0.I) = Len(x.I) /\ \E p \in 1..Len(x.I) : p # ax /\ y0.I[p] # x.I[p]
         /\ C("cat", IF Len(y0.I) # Len(x.I) THEN "order" ELSE "shape", x, [y |-> Second(y0), ax |-> ax - 1], TRUE, TRUE)
\* constructors: core lists that are not a TT
CtorBad(x) ==
    \E cls \in {"rank_chain", "boundary_left", "boundary_right", "ndim2", "mixed_ndim", "string", "empty_list"} :
         /\ (cls \in {"rank_chain", "mixed_ndim"} => Len(x.I) >= 2)
         /\ C("ctor", cls, x, <<>>, cls \in {"rank_chain", "boundary_left", "boundary_right", "ndim2", "mixed_ndim", "string"}, TRUE)
RandomBad(x) ==
    \/ C("random", "rank_len", x, <<>>, TRUE, TRUE)
    \/ C("random", "rank_boundary", x, <<>>, TRUE, TRUE)
SolverBad(x) ==
    \/ x.k = "ttm" /\ \E y0 \in TS : y0.cx = x.cx /\ Len(y0.I) = Len(x.I) /\ y0.I # x.J /\ x.I = x.J
                                     /\ C("amen_solve", "shape", x, [y |-> Second(y0)], TRUE, TRUE)
    \/ x.k = "ttm" /\ x.I # x.J /\ \E y0 \in TS : y0.cx = x.cx /\ y0.I = x.J
                                     /\ C("amen_solve", "nonsquare", x, [y |-> Second(y0)], TRUE, TRUE)
    \/ x.k = "tt" /\ C("amen_solve", "kind", x, <<>>, TRUE, TRUE)
    \/ x.k = "ttm" /\ \E y0 \in TS : y0.cx = x.cx /\ Len(y0.I) = Len(x.I) /\ y0.I # x.J
                                     /\ C("amen_mv", "shape", x, [y |-> Second(y0)], TRUE, TRUE)
    \/ x.k = "tt" /\ C("amen_mv", "kind", x, <<>>, TRUE, TRUE)
    \/ x.k = "ttm" /\ \E y0 \in MS : y0.cx = x.cx /\ Len(y0.I) = Len(x.I) /\ y0.I # x.J
                                     /\ C("amen_mm", "shape", x, [y |-> Second(y0)], TRUE, TRUE)
    \/ x.k = "tt" /\ \E y0 \in TS : y0.cx = x.cx /\ ~TorchCompatible(x.I, y0.I)
                                     /\ C("truediv", "shape", x, [y |-> Second(y0)], TRUE, TRUE)
    \/ x.k = "tt" /\ \E y0 \in TS : y0.cx = x.cx /\ Len(y0.I) = Len(x.I) /\ ~TorchCompatible(x.I, y0.I)
                                     /\ C("hadamard", "shape", x, [y |-> Second(y0)], FALSE, ~TorchCompatible(x.I, y0.I))

\* tangent-space projection of a tensor of another shape (any difference, singleton modes included) or kind
ManifoldBad(x) ==
    \/ \E y0 \in TS \cup MS : y0.cx = x.cx /\ y0.k = x.k /\ Len(y0.I) = Len(x.I) /\ (y0.I # x.I \/ y0.J # x.J)
                              /\ C("projection", "shape", x, [y |-> Second(y0)], FALSE, TRUE)
    \/ \E y0 \in TS \cup MS : y0.cx = x.cx /\ y0.k # x.k /\ C("projection", "kind", x, [y |-> Second(y0)], TRUE, TRUE)
Next ==
    /\ case.op = "init"
    /\ LET x == case.x IN
       \/ ShapeMismatchTT(x) \/ ShapeMismatchTTM(x) \/ KindMismatch(x) \/ MatmulMismatch(x) \/ WrongType(x)
       \/ WrongKindUnary(x) \/ AxisRange(x) \/ PermuteBad(x) \/ ReshapeBad(x) \/ IndexBad(x) \/ DotBad(x) \/ CatBad(x)
       \/ CtorBad(x) \/ RandomBad(x) \/ SolverBad(x) \/ ManifoldBad(x)

Spec == Init /\ [][Next]_vars

Incompatible == res.incompat
=============================================================================
