SPECIFICATION Spec
CONSTANTS
  NSET = {1, 2, 3, 4, 8, 9, 16, 27, 32, 64}
  MAXD = 4
  BS = {2, 3, 4}
INVARIANT AllB
INVARIANT RoundTrip
CHECK_DEADLOCK FALSE
