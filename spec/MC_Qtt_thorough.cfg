SPECIFICATION Spec
CONSTANTS
  NSET = {1, 2, 3, 4, 8, 16, 32, 64}
  MAXD = 4
  B = 2
INVARIANT AllB
INVARIANT RoundTrip
CHECK_DEADLOCK FALSE
