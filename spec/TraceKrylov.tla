------------------------------ MODULE TraceKrylov -----------------------------
(***************************************************************************)
(* Trace validation of the restarted GMRES: the hooks in                   *)
(* torchtt/_iterative_solvers.py emit gmres_begin {N, maxit, resets}, one  *)
(* gmres_cycle {steps, converged, err, thr} per cycle and gmres_end        *)
(* {cycles, converged}.  A recorded call is accepted iff it is a behaviour *)
(* of the automaton of spec/Krylov.tla (StepBound, FlagOK, ExitOK).        *)
(* err / thr are logarithmic integers (floor(1024 log2 x)).  A BiCGSTAB    *)
(* call is a trace with alg = "bicgstab" and a single event {nit, relres,  *)
(* eps}.                                                                   *)
(***************************************************************************)
EXTENDS Krylov, Json, IOUtils
Traces == JsonDeserialize(IOEnv.TRACE_FILE).traces
NT == Len(Traces)
VARIABLES tid, l
vars == <<tid, l>>
ASSUME \A t \in 1..NT : TLCSet(t, 0)
T == Traces[tid]
KSLACK == 16
KZERO == -1073741824
Init == tid \in 1..NT /\ l = 1
IsBi == "alg" \in DOMAIN T /\ T.alg = "bicgstab"
Next ==
    /\ l <= Len(T.ev)
    /\ IF IsBi THEN LET e == T.ev[l] IN l = 1 /\ BiOK(e.nit, T.nmax, e.relres_L, e.eps_L, KSLACK) ELSE
       LET e == T.ev[l] IN
       /\ l <= T.resets                                                        \* at most `resets` cycles
       /\ CycleOK(e.steps, e.converged, T.N, T.maxit)                          \* StepBound, budget used up
       /\ (e.converged /\ e.steps > 0 => e.err_L = KZERO \/ e.err_L <= e.thr_L + KSLACK)   \* FlagOK
       /\ (l > 1 => ~T.ev[l - 1].converged)                                    \* a converged cycle is the last one
    /\ l' = l + 1
    /\ (TLCGet(tid) < l => TLCSet(tid, l))
    /\ UNCHANGED tid
Finish ==
    /\ l = Len(T.ev) + 1
    /\ IF IsBi THEN Len(T.ev) = 1
       ELSE /\ T.end.cycles = Len(T.ev)
            /\ (Len(T.ev) >= 1 => T.end.converged = T.ev[Len(T.ev)].converged)
            /\ (~T.end.converged => Len(T.ev) = T.resets)                      \* ExitOK
    /\ TLCSet(tid, Len(T.ev) + 1)
    /\ l' = l + 1 /\ UNCHANGED tid
Spec == Init /\ [][Next \/ Finish]_vars
Accepted == LET bad == {t \in 1..NT : TLCGet(t) # Len(Traces[t].ev) + 1} IN
            \/ bad = {}
            \/ (\A t \in bad : PrintT(<<"REJECTED", t, "matched", TLCGet(t), "of", Len(Traces[t].ev) + 1>>)) /\ FALSE
=============================================================================
