-------------------------------- MODULE Trunc --------------------------------
(***************************************************************************)
(* Error ledger of a truncation sweep (TT-SVD left to right: to_tt /       *)
(* mat_to_tt; rounding right to left after orthogonalisation: round_tt).   *)
(*                                                                         *)
(* The sweep visits the d-1 bonds in processing order.  At each bond the   *)
(* current remainder has a spectrum (energies, non-increasing); its rank   *)
(* is chosen by rank_chop with the threshold  (eps/sqrt(d-1))^2 * |rem|^2  *)
(* relative to the *current* remainder, then capped by rmax.  The tail is  *)
(* discarded for good.  eps^2 = p/q.                                       *)
(*                                                                         *)
(* The environment chooses the next spectrum: any redistribution of the    *)
(* kept energy.  "nested" behaviours (next spectrum = kept prefix) are     *)
(* exactly what superdiagonal tensors produce and are replayed on the      *)
(* implementation.                                                         *)
(*                                                                         *)
(*   ErrBound   discarded energy <= eps^2 * total energy, unless a cap was *)
(*              binding (the sqrt(d-1) budget split is sound)              *)
(*   RankBound  every chosen rank is >= 1, <= cap, <= number of non-zero   *)
(*              values of the spectrum it was chosen from (eps > 0)        *)
(***************************************************************************)
EXTENDS ChopDefs

CONSTANTS CFGS,       \* set of [d, p, q, caps] : order, eps^2 = p/q, caps per bond in processing order
          SPECTRA,    \* set of initial spectra (energies, non-increasing)
          INFL,       \* numbers of zero values appended to every spectrum (over-parameterised ranks, rounding)
          NESTEDONLY  \* TRUE: only nested behaviours (the replayable ones)

VARIABLES cfg, infl, spec0, i, spec, total, disc, ranks, nnz, capped, nested, ties
vars == <<cfg, infl, spec0, i, spec, total, disc, ranks, nnz, capped, nested, ties>>

Zeros(n) == [k \in 1..n |-> 0]
BIG == 1000

Init == /\ cfg \in CFGS /\ infl \in INFL
        /\ \E s \in SPECTRA : spec0 = s /\ spec = s \o Zeros(infl) /\ total = SumSeq(s)
        /\ i = 1 /\ disc = 0 /\ ranks = <<>> /\ nnz = <<>> /\ capped = FALSE /\ nested = TRUE /\ ties = 0

Ge(a, b) == a >= b
Half(s) == SortSeq([k \in 1..(2 * Len(s)) |-> s[((k - 1) \div 2) + 1] \div 2], Ge)
NextSpectra(kept) ==
    IF NESTEDONLY THEN {kept}
    ELSE {kept, <<SumSeq(kept)>> \o Zeros(Len(kept) - 1)}
         \cup (IF \A k \in 1..Len(kept) : kept[k] % 2 = 0 THEN {Half(kept)} ELSE {})

Step ==
    /\ i <= cfg.d - 1
    /\ LET rem == SumSeq(spec)
           thn == cfg.p * rem
           thd == cfg.q * (cfg.d - 1)
           r0 == ChopPy(spec, thn, thd)
           r == IF r0 <= cfg.caps[i] THEN r0 ELSE cfg.caps[i]
           kept == SubSeq(spec, 1, r)
           \* an exact tie: the decision would flip under an arbitrarily small perturbation of the threshold
           tie == \E k \in 0..Len(spec) : TailE(spec, k) * thd = thn /\ TailE(spec, k) > 0
       IN /\ ranks' = Append(ranks, r)
          /\ nnz' = Append(nnz, NNonZero(spec))
          /\ disc' = disc + TailE(spec, r)
          /\ capped' = (capped \/ r < r0)
          /\ ties' = ties + (IF tie THEN 1 ELSE 0)
          /\ \E nx \in NextSpectra(kept) :
                /\ spec' = nx \o Zeros(infl)
                /\ nested' = (nested /\ nx = kept)
    /\ i' = i + 1
    /\ UNCHANGED <<cfg, infl, spec0, total>>

Spec == Init /\ [][Step]_vars

ErrBound == ~capped => disc * cfg.q <= cfg.p * total
RankBound == \A k \in 1..Len(ranks) :
                /\ ranks[k] >= 1 /\ ranks[k] <= cfg.caps[k]
                /\ (cfg.p > 0 => ranks[k] <= (IF nnz[k] = 0 THEN 1 ELSE nnz[k]))
\* the ledger is consistent: what is left plus what was discarded is what there was
Energy == disc >= 0 /\ disc <= total
=============================================================================
