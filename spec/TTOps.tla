------------------------------- MODULE TTOps --------------------------------
(***************************************************************************)
(* The algebra of torchtt, defined twice:                                  *)
(*   D*  operators act on dense values (what the property statements call  *)
(*       "the same expression on the dense arrays") - the oracle;          *)
(*   T*  operators act on cores (how a TT library realises the operation   *)
(*       without ever forming the dense array) and carry the rank laws.    *)
(* The model checker verifies  Full(T-op(x,y)) = D-op(Full(x),Full(y))  on *)
(* every enumerated case (design check) and the harness compares the real  *)
(* implementation with both.                                               *)
(***************************************************************************)
EXTENDS TTCore

\* ===================================================================== dense
DMap1(F(_), A) == [sh |-> A.sh, v |-> [q \in 1..Len(A.v) |-> F(A.v[q])]]
DMap2(F(_, _), A, B) == [sh |-> A.sh, v |-> [q \in 1..Len(A.v) |-> F(A.v[q], B.v[q])]]

\* torch-style broadcasting of B to the shape sh (trailing alignment, size-1 modes)
Broadcastable(bsh, sh) ==
    /\ Len(bsh) <= Len(sh)
    /\ \A p \in 1..Len(bsh) : bsh[p] = sh[Len(sh) - Len(bsh) + p] \/ bsh[p] = 1
DBroadcast(B, sh) ==
    LET off == Len(sh) - Len(B.sh) IN
    DenseOf(sh, LAMBDA ix : At(B, [p \in 1..Len(B.sh) |-> IF B.sh[p] = 1 THEN 1 ELSE ix[off + p]]))

DAdd(A, B) == DMap2(GAdd, A, DBroadcast(B, A.sh))
DSub(A, B) == DMap2(GSub, A, DBroadcast(B, A.sh))
DMul(A, B) == DMap2(GMul, A, DBroadcast(B, A.sh))
DNeg(A)    == DMap1(GNeg, A)
DConj(A)   == DMap1(GConj, A)
DScale(A, c)     == DMap1(LAMBDA z : GMul(z, c), A)
DAddScalar(A, c) == DMap1(LAMBDA z : GAdd(z, c), A)
DRSubScalar(A, c) == DMap1(LAMBDA z : GSub(c, z), A)      \* c - A
DConst(sh, c) == DenseOf(sh, LAMBDA ix : c)

\* Kronecker (outer) product.  For operators (da, db = orders) the result is
\* rows(A) ++ rows(B) ++ cols(A) ++ cols(B).
DKronT(A, B) ==
    DenseOf(A.sh \o B.sh,
            LAMBDA ix : GMul(At(A, SubSeq(ix, 1, Len(A.sh))),
                             At(B, SubSeq(ix, Len(A.sh) + 1, Len(A.sh) + Len(B.sh)))))
DKronM(A, da, B, db) ==
    LET d == da + db IN
    DenseOf(SubSeq(A.sh, 1, da) \o SubSeq(B.sh, 1, db) \o SubSeq(A.sh, da + 1, 2*da) \o SubSeq(B.sh, db + 1, 2*db),
            LAMBDA ix : GMul(At(A, SubSeq(ix, 1, da) \o SubSeq(ix, d + 1, d + da)),
                             At(B, SubSeq(ix, da + 1, d) \o SubSeq(ix, d + da + 1, 2*d))))

\* all multi-indices of a shape, as a sequence (row-major)
IdxSeq(sh) == [q \in 1..Prod(sh) |-> Unflat(q - 1, sh)]

\* operator algebra on dense arrays of shape M ++ N (d = order)
DMatVec(A, d, X) ==      \* y_i = sum_j A_ij x_j
    LET M == SubSeq(A.sh, 1, d)  N == SubSeq(A.sh, d + 1, 2*d)  js == IdxSeq(N) IN
    DenseOf(M, LAMBDA ix : GSum([q \in 1..Len(js) |-> GMul(At(A, ix \o js[q]), At(X, js[q]))]))
DVecMat(X, A, d) ==      \* y_j = sum_i x_i A_ij
    LET M == SubSeq(A.sh, 1, d)  N == SubSeq(A.sh, d + 1, 2*d)  is == IdxSeq(M) IN
    DenseOf(N, LAMBDA jx : GSum([q \in 1..Len(is) |-> GMul(At(X, is[q]), At(A, is[q] \o jx))]))
DMatMat(A, B, d) ==      \* C_ij = sum_k A_ik B_kj
    LET M == SubSeq(A.sh, 1, d)  K == SubSeq(A.sh, d + 1, 2*d)  N == SubSeq(B.sh, d + 1, 2*d)
        ks == IdxSeq(K) IN
    DenseOf(M \o N, LAMBDA ix :
        GSum([q \in 1..Len(ks) |-> GMul(At(A, SubSeq(ix, 1, d) \o ks[q]),
                                        At(B, ks[q] \o SubSeq(ix, d + 1, 2*d)))]))
DTranspose(A, d) ==
    DenseOf(SubSeq(A.sh, d + 1, 2*d) \o SubSeq(A.sh, 1, d),
            LAMBDA ix : At(A, SubSeq(ix, d + 1, 2*d) \o SubSeq(ix, 1, d)))
\* operator times a dense array with leading batch modes: y_{b,i} = sum_j A_ij x_{b,j}
DMatDense(A, d, X) ==
    LET M == SubSeq(A.sh, 1, d)  N == SubSeq(A.sh, d + 1, 2*d)
        nb == Len(X.sh) - d  B == SubSeq(X.sh, 1, nb)  js == IdxSeq(N) IN
    DenseOf(B \o M, LAMBDA ix :
        GSum([q \in 1..Len(js) |-> GMul(At(A, SubSeq(ix, nb + 1, nb + d) \o js[q]),
                                        At(X, SubSeq(ix, 1, nb) \o js[q]))]))

\* reductions
DSumAll(A)  == GSum(A.v)
DNorm2(A)   == SumSeq([q \in 1..Len(A.v) |-> GAbs2(A.v[q])])
DDot(A, B)  == GSum([q \in 1..Len(A.v) |-> GMul(A.v[q], GConj(B.v[q]))])   \* <a,b> = b^H a
\* keep the positions in 'keep' (an increasing sequence of axes), sum the others
SelectSeq2(s, idxs) == [p \in 1..Len(idxs) |-> s[idxs[p]]]
Complement(n, axes) == LET S == {p \in 1..n : \A q \in 1..Len(axes) : axes[q] # p} IN SetToSortSeq(S, <)
Merge(n, axes, ia, rest, ir) ==   \* index of length n: positions axes take ia, positions rest take ir
    [p \in 1..n |-> IF \E q \in 1..Len(axes) : axes[q] = p
                    THEN ia[CHOOSE q \in 1..Len(axes) : axes[q] = p]
                    ELSE ir[CHOOSE q \in 1..Len(rest) : rest[q] = p]]
DSumAxes(A, axes) ==     \* tensor: sum over the listed axes (1-based, increasing)
    LET n == Len(A.sh)  rest == Complement(n, axes)
        ash == SelectSeq2(A.sh, axes)  as == IdxSeq(ash) IN
    DenseOf(SelectSeq2(A.sh, rest), LAMBDA ir :
        GSum([q \in 1..Len(as) |-> At(A, Merge(n, axes, as[q], rest, ir))]))
DSumAxesM(A, d, axes) == \* operator: summing mode p removes row axis p and column axis d+p
    LET all == axes \o [q \in 1..Len(axes) |-> d + axes[q]] IN DSumAxes(A, all)
\* partial inner product: contract the listed axes of A with all axes of B (conjugated)
DDotAxes(A, B, axes) ==
    LET n == Len(A.sh)  rest == Complement(n, axes)  bs == IdxSeq(B.sh) IN
    DenseOf(SelectSeq2(A.sh, rest), LAMBDA ir :
        GSum([q \in 1..Len(bs) |-> GMul(At(A, Merge(n, axes, bs[q], rest, ir)), GConj(At(B, bs[q])))]))
DBilinear(X, A, d, Y) == \* x^H A y
    LET M == SubSeq(A.sh, 1, d)  N == SubSeq(A.sh, d + 1, 2*d)  is == IdxSeq(M)  js == IdxSeq(N) IN
    GSum([q \in 1..Len(is) |->
        GMul(GConj(At(X, is[q])),
             GSum([r \in 1..Len(js) |-> GMul(At(A, is[q] \o js[r]), At(Y, js[r]))]))])

\* ================================================================== TT level
\* ---- broadcasting an operand to a longer / wider shape (tensors only)
TBroadcast(y, sh) ==
    LET off == Len(sh) - Order(y) IN
    [k |-> "tt",
     c |-> [p \in 1..Len(sh) |->
              IF p <= off THEN MkCore(1, sh[p], 1, 1, LAMBDA a, i, j, b : GOne)
              ELSE LET c0 == y.c[p - off] IN
                   MkCore(LRank(c0), sh[p], 1, RRank(c0),
                          LAMBDA a, i, j, b : c0[a][IF ISize(c0) = 1 THEN 1 ELSE i][1][b])]]

\* ---- x + y for equal mode sizes: block-diagonal cores, boundary cores stacked
TAddSame(x, y) ==
    LET d == Order(x) IN
    [k |-> x.k,
     c |-> [p \in 1..d |->
        LET cx == x.c[p]  cy == y.c[p]
            lx == LRank(cx)  rx == RRank(cx)
            L == IF p = 1 THEN 1 ELSE lx + LRank(cy)
            Rr == IF p = d THEN 1 ELSE rx + RRank(cy)
        IN MkCore(L, ISize(cx), JSize(cx), Rr, LAMBDA a, i, j, b :
              LET ax == (p = 1) \/ a <= lx          ay == (p = 1) \/ a > lx
                  bx == (p = d) \/ b <= rx          by == (p = d) \/ b > rx
                  ia == IF p = 1 THEN 1 ELSE a - lx  ib == IF p = d THEN 1 ELSE b - rx
              IN GAdd(IF ax /\ bx THEN cx[IF p = 1 THEN 1 ELSE a][i][j][IF p = d THEN 1 ELSE b] ELSE GZero,
                      IF ay /\ by THEN cy[ia][i][j][ib] ELSE GZero))]]

\* ---- scaling: the first core carries the factor
TScale(x, c) ==
    [k |-> x.k,
     c |-> [p \in 1..Order(x) |->
              IF p = 1 THEN MkCore(1, ISize(x.c[1]), JSize(x.c[1]), RRank(x.c[1]),
                                   LAMBDA a, i, j, b : GMul(x.c[1][a][i][j][b], c))
              ELSE x.c[p]]]
TNeg(x) == TScale(x, <<-1, 0>>)
TConstLike(x, c) ==     \* rank-1 object of the shape of x with every entry c
    [k |-> x.k,
     c |-> [p \in 1..Order(x) |->
              MkCore(1, ISize(x.c[p]), JSize(x.c[p]), 1,
                     LAMBDA a, i, j, b : IF p = 1 THEN c ELSE GOne)]]

TAdd(x, y) == TAddSame(x, IF x.k = "tt" THEN TBroadcast(y, IDims(x)) ELSE y)
TSub(x, y) == TAddSame(x, TNeg(IF x.k = "tt" THEN TBroadcast(y, IDims(x)) ELSE y))
TAddScalar(x, c) == TAddSame(x, TConstLike(x, c))

\* ---- elementwise product: Kronecker product of the rank spaces
TMulSame(x, y) ==
    [k |-> x.k,
     c |-> [p \in 1..Order(x) |->
        LET cx == x.c[p]  cy == y.c[p]  ly == LRank(cy)  ry == RRank(cy) IN
        MkCore(LRank(cx) * ly, ISize(cx), JSize(cx), RRank(cx) * ry, LAMBDA a, i, j, b :
            GMul(cx[((a - 1) \div ly) + 1][i][j][((b - 1) \div ry) + 1],
                 cy[((a - 1) % ly) + 1][i][j][((b - 1) % ry) + 1]))]]
TMul(x, y) == TMulSame(x, IF x.k = "tt" THEN TBroadcast(y, IDims(x)) ELSE y)

\* ---- Kronecker product: cores concatenated
TKron(x, y) == [k |-> x.k, c |-> x.c \o y.c]

\* ---- operator products.  A tensor is an operator with unit column modes, so
\*      A@x is the operator product; x@A contracts the tensor mode with A's rows.
TMatMat(A, B, kind) ==
    [k |-> kind,
     c |-> [p \in 1..Order(A) |->
        LET ca == A.c[p]  cb == B.c[p]  lb == LRank(cb)  rb == RRank(cb) IN
        MkCore(LRank(ca) * lb, ISize(ca), JSize(cb), RRank(ca) * rb, LAMBDA a, i, j, b :
            GSum([k2 \in 1..JSize(ca) |->
                GMul(ca[((a - 1) \div lb) + 1][i][k2][((b - 1) \div rb) + 1],
                     cb[((a - 1) % lb) + 1][k2][j][((b - 1) % rb) + 1])]))]]
TMatVec(A, x) == TMatMat(A, x, "tt")
TVecMat(x, A) ==
    [k |-> "tt",
     c |-> [p \in 1..Order(A) |->
        LET ca == A.c[p]  cx == x.c[p]  lx == LRank(cx)  rx == RRank(cx) IN
        MkCore(LRank(ca) * lx, JSize(ca), 1, RRank(ca) * rx, LAMBDA a, i, j, b :
            GSum([k2 \in 1..ISize(ca) |->
                GMul(cx[((a - 1) % lx) + 1][k2][1][((b - 1) % rx) + 1],
                     ca[((a - 1) \div lx) + 1][k2][i][((b - 1) \div rx) + 1])]))]]
TTranspose(A) ==
    [k |-> "ttm",
     c |-> [p \in 1..Order(A) |->
        MkCore(LRank(A.c[p]), JSize(A.c[p]), ISize(A.c[p]), RRank(A.c[p]),
               LAMBDA a, i, j, b : A.c[p][a][j][i][b])]]
TConj(x) ==
    [k |-> x.k,
     c |-> [p \in 1..Order(x) |->
        MkCore(LRank(x.c[p]), ISize(x.c[p]), JSize(x.c[p]), RRank(x.c[p]),
               LAMBDA a, i, j, b : GConj(x.c[p][a][i][j][b]))]]
TToTTM(x) == [k |-> "ttm", c |-> x.c]
\* diag: tensor -> diagonal operator, operator (square modes) -> its diagonal
TDiagEmbed(x) ==
    [k |-> "ttm",
     c |-> [p \in 1..Order(x) |->
        MkCore(LRank(x.c[p]), ISize(x.c[p]), ISize(x.c[p]), RRank(x.c[p]),
               LAMBDA a, i, j, b : IF i = j THEN x.c[p][a][i][1][b] ELSE GZero)]]
TDiagExtract(A) ==
    [k |-> "tt",
     c |-> [p \in 1..Order(A) |->
        MkCore(LRank(A.c[p]), IF ISize(A.c[p]) <= JSize(A.c[p]) THEN ISize(A.c[p]) ELSE JSize(A.c[p]), 1, RRank(A.c[p]),
               LAMBDA a, i, j, b : A.c[p][a][i][i][b])]]      \* (rectangular modes: the diagonal has min(M, N) entries)

\* ================================================= indexing (dense level, C08)
\* An index expression is a sequence of items
\*   [t |-> "i", v |-> n]               an integer (negative allowed)
\*   [t |-> "s", lo, hi, st]            a slice; NONE stands for an omitted bound
\*   [t |-> "n"]                        None (a new unit mode)
\*   [t |-> "e"]                        Ellipsis
NONE == 99
SlLo(it, n) == IF it.lo = NONE THEN 0 ELSE IF it.lo < 0 THEN Max2(it.lo + n, 0) ELSE Min2(it.lo, n)
SlHi(it, n) == IF it.hi = NONE THEN n ELSE IF it.hi < 0 THEN Max2(it.hi + n, 0) ELSE Min2(it.hi, n)
SlLen(it, n) == LET lo == SlLo(it, n)  hi == SlHi(it, n) IN
                IF hi > lo THEN (hi - lo + it.st - 1) \div it.st ELSE 0
IntPos(v, n) == IF v < 0 THEN v + n ELSE v          \* zero-based position
FullSlice == [t |-> "s", lo |-> NONE, hi |-> NONE, st |-> 1]
NConsumers(e) == Cardinality({p \in 1..Len(e) : e[p].t \in {"i", "s"}})
\* replace the Ellipsis (at most one) by the right number of full slices; pad a short tuple with full slices
Expand(e, d) ==
    LET k == d - NConsumers(e)
        pos == {p \in 1..Len(e) : e[p].t = "e"} IN
    IF pos = {} THEN e \o [q \in 1..k |-> FullSlice]
    ELSE LET p == CHOOSE q \in pos : TRUE IN
         SubSeq(e, 1, p - 1) \o [q \in 1..k |-> FullSlice] \o SubSeq(e, p + 1, Len(e))
\* valid for the dense array: not more consumers than modes, ints in range, no empty slice
RECURSIVE ValidItems(_, _)
ValidItems(e, sh) ==
    IF e = <<>> THEN TRUE
    ELSE LET it == e[1] IN
         IF it.t = "n" THEN ValidItems(Tail(e), sh)
         ELSE /\ sh # <<>>
              /\ IF it.t = "i" THEN it.v >= 0 - sh[1] /\ it.v < sh[1] ELSE SlLen(it, sh[1]) >= 1
              /\ ValidItems(Tail(e), Tail(sh))
ValidIndex(e, sh) == NConsumers(e) <= Len(sh) /\ ValidItems(Expand(e, Len(sh)), sh)
\* resulting shape and, for a result index, the source index
RECURSIVE IdxShape(_, _)
IdxShape(e, sh) ==
    IF e = <<>> THEN <<>>
    ELSE LET it == e[1] IN
         IF it.t = "n" THEN <<1>> \o IdxShape(Tail(e), sh)
         ELSE IF it.t = "i" THEN IdxShape(Tail(e), Tail(sh))
         ELSE <<SlLen(it, sh[1])>> \o IdxShape(Tail(e), Tail(sh))
RECURSIVE SrcIdx(_, _, _)
SrcIdx(e, sh, rix) ==        \* rix: 1-based index into the result; returns 1-based index into the source
    IF e = <<>> THEN <<>>
    ELSE LET it == e[1] IN
         IF it.t = "n" THEN SrcIdx(Tail(e), sh, Tail(rix))
         ELSE IF it.t = "i" THEN <<IntPos(it.v, sh[1]) + 1>> \o SrcIdx(Tail(e), Tail(sh), rix)
         ELSE <<SlLo(it, sh[1]) + (rix[1] - 1) * it.st + 1>> \o SrcIdx(Tail(e), Tail(sh), Tail(rix))
DIndex(A, e0) ==
    LET e == Expand(e0, Len(A.sh)) IN
    DenseOf(IdxShape(e, A.sh), LAMBDA rix : At(A, SrcIdx(e, A.sh, rix)))
\* all index positions are integers: the result is a number
AllInts(e0, d) == LET e == Expand(e0, d) IN \A p \in 1..Len(e) : e[p].t = "i"

\* ============================================ cat / pad / mprod (dense level, C09)
DCat2(A, B, ax) ==          \* concatenate along axis ax (1-based)
    LET sh == [p \in 1..Len(A.sh) |-> IF p = ax THEN A.sh[p] + B.sh[p] ELSE A.sh[p]] IN
    DenseOf(sh, LAMBDA ix : IF ix[ax] <= A.sh[ax] THEN At(A, ix)
                            ELSE At(B, [ix EXCEPT ![ax] = ix[ax] - A.sh[ax]]))
\* constant padding of the trailing Len(w) modes of a tensor; w[q] = <<before, after>>
DPadT(A, w, val) ==
    LET n == Len(A.sh)  off == n - Len(w)
        sh == [p \in 1..n |-> IF p <= off THEN A.sh[p] ELSE A.sh[p] + w[p - off][1] + w[p - off][2]]
        Inside(ix) == \A p \in (off + 1)..n : ix[p] > w[p - off][1] /\ ix[p] <= w[p - off][1] + A.sh[p] IN
    DenseOf(sh, LAMBDA ix : IF Inside(ix)
                            THEN At(A, [p \in 1..n |-> IF p <= off THEN ix[p] ELSE ix[p] - w[p - off][1]])
                            ELSE val)
\* operator padding (every mode padded; w[p] = <<before, after>>): the original block is kept, the
\* all-leading and the all-trailing corner blocks are val times the identity, everything else is zero
\* ("diagonal padding": leading and trailing paddings couple only to themselves).
DPadM(A, d, w, val) ==
    LET M == SubSeq(A.sh, 1, d)  N == SubSeq(A.sh, d + 1, 2*d)
        b(p) == w[p][1]
        a(p) == w[p][2]
        sh == [p \in 1..(2*d) |-> IF p <= d THEN M[p] + b(p) + a(p) ELSE N[p - d] + b(p - d) + a(p - d)]
        Cls(p, i, j) == IF i > b(p) /\ i <= b(p) + M[p] /\ j > b(p) /\ j <= b(p) + N[p] THEN "in"
                        ELSE IF i <= b(p) /\ j <= b(p) THEN (IF i = j THEN "lead" ELSE "zero")
                        ELSE IF i > b(p) + M[p] /\ j > b(p) + N[p]
                             THEN (IF i - b(p) - M[p] = j - b(p) - N[p] THEN "trail" ELSE "zero")
                        ELSE "zero" IN
    DenseOf(sh, LAMBDA ix :
        LET cls == [p \in 1..d |-> Cls(p, ix[p], ix[d + p])] IN
        IF \A p \in 1..d : cls[p] = "in"
        THEN At(A, [q \in 1..(2*d) |-> IF q <= d THEN ix[q] - b(q) ELSE ix[q] - b(q - d)])
        ELSE IF \A p \in 1..d : cls[p] = "lead" THEN val
        ELSE IF \A p \in 1..d : cls[p] = "trail" THEN val
        ELSE GZero)
\* mode product: contract mode p (1-based) of A with the second index of the matrix Mt (shape <<m, n>>)
DMProd1(A, Mt, p) ==
    LET sh == [q \in 1..Len(A.sh) |-> IF q = p THEN Mt.sh[1] ELSE A.sh[q]] IN
    DenseOf(sh, LAMBDA ix :
        GSum([j \in 1..A.sh[p] |-> GMul(At(Mt, <<ix[p], j>>), At(A, [ix EXCEPT ![p] = j]))]))

\* ---- TT level: concatenation (block placement with running rank offsets)
TCat2(x, y, ax) ==
    LET d == Order(x) IN
    [k |-> "tt",
     c |-> [p \in 1..d |->
        LET cx == x.c[p]  cy == y.c[p]
            lx == LRank(cx)  rx == RRank(cx)  nx == ISize(cx)
            L == IF p = 1 THEN 1 ELSE lx + LRank(cy)
            Rr == IF p = d THEN 1 ELSE rx + RRank(cy)
            n == IF p = ax THEN nx + ISize(cy) ELSE nx
        IN MkCore(L, n, 1, Rr, LAMBDA a, i, j, b :
              LET ax_ == (p = 1) \/ a <= lx          ay_ == (p = 1) \/ a > lx
                  bx_ == (p = d) \/ b <= rx          by_ == (p = d) \/ b > rx
                  ia == IF p = 1 THEN 1 ELSE a - lx  ib == IF p = d THEN 1 ELSE b - rx
                  ix_ == (p # ax) \/ i <= nx         iy_ == (p # ax) \/ i > nx
                  iy == IF p = ax THEN i - nx ELSE i
              IN GAdd(IF ax_ /\ bx_ /\ ix_ THEN cx[IF p = 1 THEN 1 ELSE a][i][1][IF p = d THEN 1 ELSE b] ELSE GZero,
                      IF ay_ /\ by_ /\ iy_ THEN cy[ia][iy][1][ib] ELSE GZero))]]

\* ====================================== in-place operations and slicing at TT level
\* a core with unit modes is a matrix between its ranks
RMulCore(prev, c) ==       \* prev . M(c)
    MkCore(LRank(prev), ISize(prev), JSize(prev), RRank(c), LAMBDA a, i, j, b :
        GSum([k2 \in 1..LRank(c) |-> GMul(prev[a][i][j][k2], c[k2][1][1][b])]))
LMulCore(c, next) ==       \* M(c) . next
    MkCore(LRank(c), ISize(next), JSize(next), RRank(next), LAMBDA a, i, j, b :
        GSum([k2 \in 1..RRank(c) |-> GMul(c[a][1][1][k2], next[k2][i][j][b])]))
\* transcription of TT.reduce_dims(exclude): unit modes not in ex (1-based positions) are removed; a
\* removed core is multiplied into its left neighbour if its left rank is larger than its right rank or
\* it is the last core, otherwise into the right neighbour (at least one core is kept)
RECURSIVE RDCores(_, _, _, _)
RDCores(cs, i, acc, ex) ==
    IF i > Len(cs) THEN acc
    ELSE LET c == cs[i]  d == Len(cs)
             single == ISize(c) = 1 /\ JSize(c) = 1 /\ i \notin ex IN
         IF ~single THEN RDCores(cs, i + 1, Append(acc, c), ex)
         ELSE IF LRank(c) > RRank(c) \/ i = d
              THEN IF Len(acc) > 0
                   THEN RDCores(cs, i + 1, [acc EXCEPT ![Len(acc)] = RMulCore(acc[Len(acc)], c)], ex)
                   ELSE IF i # d THEN RDCores([cs EXCEPT ![i + 1] = LMulCore(c, cs[i + 1])], i + 1, acc, ex)
                        ELSE RDCores(cs, i + 1, Append(acc, c), ex)
              ELSE RDCores([cs EXCEPT ![i + 1] = LMulCore(c, cs[i + 1])], i + 1, acc, ex)
TReduceDims(x, ex) == [k |-> x.k, c |-> RDCores(x.c, 1, <<>>, ex)]

\* x.sum(axes) for a proper subset of the modes: summed cores become unit modes, then removed
TSumAxes(x, axes) ==
    LET inax(p) == \E q \in 1..Len(axes) : axes[q] = p
        summed == [k |-> x.k,
                   c |-> [p \in 1..Order(x) |->
                      IF inax(p)
                      THEN MkCore(LRank(x.c[p]), 1, 1, RRank(x.c[p]), LAMBDA a, i, j, b :
                              GSum([q \in 1..(ISize(x.c[p]) * JSize(x.c[p])) |->
                                    x.c[p][a][((q - 1) \div JSize(x.c[p])) + 1][((q - 1) % JSize(x.c[p])) + 1][b]]))
                      ELSE x.c[p]]] IN
    TReduceDims(summed, {p \in 1..Order(x) : ~inax(p)})

\* x[e] for a tensor (e already expanded: one item per mode plus Nones): integer positions are removed,
\* slices and Nones stay
RECURSIVE SliceCores(_, _, _, _)
SliceCores(x, e, p, acc) ==        \* p: next source core
    IF e = <<>> THEN acc
    ELSE LET it == e[1] IN
         IF it.t = "n"
         THEN LET r == IF acc = <<>> THEN 1 ELSE RRank(acc[Len(acc)]) IN
              SliceCores(x, Tail(e), p, Append(acc, MkCore(r, 1, 1, r, LAMBDA a, i, j, b : IF a = b THEN GOne ELSE GZero)))
         ELSE LET c == x.c[p]  n == ISize(c) IN
              IF it.t = "i"
              THEN SliceCores(x, Tail(e), p + 1,
                              Append(acc, MkCore(LRank(c), 1, 1, RRank(c), LAMBDA a, i, j, b : c[a][IntPos(it.v, n) + 1][1][b])))
              ELSE SliceCores(x, Tail(e), p + 1,
                              Append(acc, MkCore(LRank(c), SlLen(it, n), 1, RRank(c),
                                                 LAMBDA a, i, j, b : c[a][SlLo(it, n) + (i - 1) * it.st + 1][1][b])))
TIndex(x, e0) ==
    LET e == Expand(e0, Order(x))
        keep == {q \in 1..Len(e) : e[q].t \in {"s", "n"}} IN
    TReduceDims([k |-> "tt", c |-> SliceCores(x, e, 1, <<>>)], keep)
\* zero padding of the trailing modes (core-wise)
TPad0(x, w) ==
    LET d == Order(x)  off == d - Len(w) IN
    [k |-> "tt",
     c |-> [p \in 1..d |->
        IF p <= off THEN x.c[p]
        ELSE LET c == x.c[p]  b0 == w[p - off][1]  a0 == w[p - off][2] IN
             MkCore(LRank(c), ISize(c) + b0 + a0, 1, RRank(c), LAMBDA a, i, j, b :
                 IF i > b0 /\ i <= b0 + ISize(c) THEN c[a][i - b0][1][b] ELSE GZero)]]

\* rank laws (what the property statements call "the documented rank structure")
RanksAdd(rx, ry) == [p \in 1..Len(rx) |-> IF p = 1 \/ p = Len(rx) THEN 1 ELSE rx[p] + ry[p]]
RanksMul(rx, ry) == [p \in 1..Len(rx) |-> rx[p] * ry[p]]
RanksBroadcast(ry, d) ==    \* ranks of y after broadcasting to order d
    [p \in 1..(d + 1) |-> IF p <= d + 1 - Len(ry) THEN 1 ELSE ry[p - (d + 1 - Len(ry))]]
=============================================================================
