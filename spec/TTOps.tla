------------------------------- MODULE TTOps --------------------------------
(***************************************************************************)
(* The algebra of torchtt, defined twice:                                  *)
(*   D*  operators act on dense values (what the property statements call  *)
(*       "the same expression on the dense arrays") - the oracle;          *)
(*   T*  operators act on cores (how a TT library realises the operation   *)
(*       without ever forming the dense array) and carry the rank laws.    *)
(* The model checker verifies  Full(T-op(x,y)) = D-op(Full(x),Full(y))  on *)
(* every enumerated case (design check) and the harness compares the real  *)
(* implementation with both.                                               *)
(***************************************************************************)
EXTENDS TTCore

\* ===================================================================== dense
DMap1(F(_), A) == [sh |-> A.sh, v |-> [q \in 1..Len(A.v) |-> F(A.v[q])]]
DMap2(F(_, _), A, B) == [sh |-> A.sh, v |-> [q \in 1..Len(A.v) |-> F(A.v[q], B.v[q])]]

\* torch-style broadcasting of B to the shape sh (trailing alignment, size-1 modes)
Broadcastable(bsh, sh) ==
    /\ Len(bsh) <= Len(sh)
    /\ \A p \in 1..Len(bsh) : bsh[p] = sh[Len(sh) - Len(bsh) + p] \/ bsh[p] = 1
DBroadcast(B, sh) ==
    LET off == Len(sh) - Len(B.sh) IN
    DenseOf(sh, LAMBDA ix : At(B, [p \in 1..Len(B.sh) |-> IF B.sh[p] = 1 THEN 1 ELSE ix[off + p]]))

DAdd(A, B) == DMap2(GAdd, A, DBroadcast(B, A.sh))
DSub(A, B) == DMap2(GSub, A, DBroadcast(B, A.sh))
DMul(A, B) == DMap2(GMul, A, DBroadcast(B, A.sh))
DNeg(A)    == DMap1(GNeg, A)
DConj(A)   == DMap1(GConj, A)
DScale(A, c)     == DMap1(LAMBDA z : GMul(z, c), A)
DAddScalar(A, c) == DMap1(LAMBDA z : GAdd(z, c), A)
DRSubScalar(A, c) == DMap1(LAMBDA z : GSub(c, z), A)      \* c - A
DConst(sh, c) == DenseOf(sh, LAMBDA ix : c)

\* Kronecker (outer) product.  For operators (da, db = orders) the result is
\* rows(A) ++ rows(B) ++ cols(A) ++ cols(B).
DKronT(A, B) ==
    DenseOf(A.sh \o B.sh,
            LAMBDA ix : GMul(At(A, SubSeq(ix, 1, Len(A.sh))),
                             At(B, SubSeq(ix, Len(A.sh) + 1, Len(A.sh) + Len(B.sh)))))
DKronM(A, da, B, db) ==
    LET d == da + db IN
    DenseOf(SubSeq(A.sh, 1, da) \o SubSeq(B.sh, 1, db) \o SubSeq(A.sh, da + 1, 2*da) \o SubSeq(B.sh, db + 1, 2*db),
            LAMBDA ix : GMul(At(A, SubSeq(ix, 1, da) \o SubSeq(ix, d + 1, d + da)),
                             At(B, SubSeq(ix, da + 1, d) \o SubSeq(ix, d + da + 1, 2*d))))

\* all multi-indices of a shape, as a sequence (row-major)
IdxSeq(sh) == [q \in 1..Prod(sh) |-> Unflat(q - 1, sh)]

\* operator algebra on dense arrays of shape M ++ N (d = order)
DMatVec(A, d, X) ==      \* y_i = sum_j A_ij x_j
    LET M == SubSeq(A.sh, 1, d)  N == SubSeq(A.sh, d + 1, 2*d)  js == IdxSeq(N) IN
    DenseOf(M, LAMBDA ix : GSum([q \in 1..Len(js) |-> GMul(At(A, ix \o js[q]), At(X, js[q]))]))
DVecMat(X, A, d) ==      \* y_j = sum_i x_i A_ij
    LET M == SubSeq(A.sh, 1, d)  N == SubSeq(A.sh, d + 1, 2*d)  is == IdxSeq(M) IN
    DenseOf(N, LAMBDA jx : GSum([q \in 1..Len(is) |-> GMul(At(X, is[q]), At(A, is[q] \o jx))]))
DMatMat(A, B, d) ==      \* C_ij = sum_k A_ik B_kj
    LET M == SubSeq(A.sh, 1, d)  K == SubSeq(A.sh, d + 1, 2*d)  N == SubSeq(B.sh, d + 1, 2*d)
        ks == IdxSeq(K) IN
    DenseOf(M \o N, LAMBDA ix :
        GSum([q \in 1..Len(ks) |-> GMul(At(A, SubSeq(ix, 1, d) \o ks[q]),
                                        At(B, ks[q] \o SubSeq(ix, d + 1, 2*d)))]))
DTranspose(A, d) ==
    DenseOf(SubSeq(A.sh, d + 1, 2*d) \o SubSeq(A.sh, 1, d),
            LAMBDA ix : At(A, SubSeq(ix, d + 1, 2*d) \o SubSeq(ix, 1, d)))
\* operator times a dense array with leading batch modes: y_{b,i} = sum_j A_ij x_{b,j}
DMatDense(A, d, X) ==
    LET M == SubSeq(A.sh, 1, d)  N == SubSeq(A.sh, d + 1, 2*d)
        nb == Len(X.sh) - d  B == SubSeq(X.sh, 1, nb)  js == IdxSeq(N) IN
    DenseOf(B \o M, LAMBDA ix :
        GSum([q \in 1..Len(js) |-> GMul(At(A, SubSeq(ix, nb + 1, nb + d) \o js[q]),
                                        At(X, SubSeq(ix, 1, nb) \o js[q]))]))

\* reductions
DSumAll(A)  == GSum(A.v)
DNorm2(A)   == SumSeq([q \in 1..Len(A.v) |-> GAbs2(A.v[q])])
DDot(A, B)  == GSum([q \in 1..Len(A.v) |-> GMul(A.v[q], GConj(B.v[q]))])   \* <a,b> = b^H a
\* keep the positions in 'keep' (an increasing sequence of axes), sum the others
SelectSeq2(s, idxs) == [p \in 1..Len(idxs) |-> s[idxs[p]]]
Complement(n, axes) == LET S == {p \in 1..n : \A q \in 1..Len(axes) : axes[q] # p} IN SetToSortSeq(S, <)
Merge(n, axes, ia, rest, ir) ==   \* index of length n: positions axes take ia, positions rest take ir
    [p \in 1..n |-> IF \E q \in 1..Len(axes) : axes[q] = p
                    THEN ia[CHOOSE q \in 1..Len(axes) : axes[q] = p]
                    ELSE ir[CHOOSE q \in 1..Len(rest) : rest[q] = p]]
DSumAxes(A, axes) ==     \* tensor: sum over the listed axes (1-based, increasing)
    LET n == Len(A.sh)  rest == Complement(n, axes)
        ash == SelectSeq2(A.sh, axes)  as == IdxSeq(ash) IN
    DenseOf(SelectSeq2(A.sh, rest), LAMBDA ir :
        GSum([q \in 1..Len(as) |-> At(A, Merge(n, axes, as[q], rest, ir))]))
DSumAxesM(A, d, axes) == \* operator: summing mode p removes row axis p and column axis d+p
    LET all == axes \o [q \in 1..Len(axes) |-> d + axes[q]] IN DSumAxes(A, all)
\* partial inner product: contract the listed axes of A with all axes of B (conjugated)
DDotAxes(A, B, axes) ==
    LET n == Len(A.sh)  rest == Complement(n, axes)  bs == IdxSeq(B.sh) IN
    DenseOf(SelectSeq2(A.sh, rest), LAMBDA ir :
        GSum([q \in 1..Len(bs) |-> GMul(At(A, Merge(n, axes, bs[q], rest, ir)), GConj(At(B, bs[q])))]))
DBilinear(X, A, d, Y) == \* x^H A y
    LET M == SubSeq(A.sh, 1, d)  N == SubSeq(A.sh, d + 1, 2*d)  is == IdxSeq(M)  js == IdxSeq(N) IN
    GSum([q \in 1..Len(is) |->
        GMul(GConj(At(X, is[q])),
             GSum([r \in 1..Len(js) |-> GMul(At(A, is[q] \o js[r]), At(Y, js[r]))]))])

\* ================================================================== TT level
\* ---- broadcasting an operand to a longer / wider shape (tensors only)
TBroadcast(y, sh) ==
    LET off == Len(sh) - Order(y) IN
    [k |-> "tt",
     c |-> [p \in 1..Len(sh) |->
              IF p <= off THEN MkCore(1, sh[p], 1, 1, LAMBDA a, i, j, b : GOne)
              ELSE LET c0 == y.c[p - off] IN
                   MkCore(LRank(c0), sh[p], 1, RRank(c0),
                          LAMBDA a, i, j, b : c0[a][IF ISize(c0) = 1 THEN 1 ELSE i][1][b])]]

\* ---- x + y for equal mode sizes: block-diagonal cores, boundary cores stacked
TAddSame(x, y) ==
    LET d == Order(x) IN
    [k |-> x.k,
     c |-> [p \in 1..d |->
        LET cx == x.c[p]  cy == y.c[p]
            lx == LRank(cx)  rx == RRank(cx)
            L == IF p = 1 THEN 1 ELSE lx + LRank(cy)
            Rr == IF p = d THEN 1 ELSE rx + RRank(cy)
        IN MkCore(L, ISize(cx), JSize(cx), Rr, LAMBDA a, i, j, b :
              LET ax == (p = 1) \/ a <= lx          ay == (p = 1) \/ a > lx
                  bx == (p = d) \/ b <= rx          by == (p = d) \/ b > rx
                  ia == IF p = 1 THEN 1 ELSE a - lx  ib == IF p = d THEN 1 ELSE b - rx
              IN GAdd(IF ax /\ bx THEN cx[IF p = 1 THEN 1 ELSE a][i][j][IF p = d THEN 1 ELSE b] ELSE GZero,
                      IF ay /\ by THEN cy[ia][i][j][ib] ELSE GZero))]]

\* ---- scaling: the first core carries the factor
TScale(x, c) ==
    [k |-> x.k,
     c |-> [p \in 1..Order(x) |->
              IF p = 1 THEN MkCore(1, ISize(x.c[1]), JSize(x.c[1]), RRank(x.c[1]),
                                   LAMBDA a, i, j, b : GMul(x.c[1][a][i][j][b], c))
              ELSE x.c[p]]]
TNeg(x) == TScale(x, <<-1, 0>>)
TConstLike(x, c) ==     \* rank-1 object of the shape of x with every entry c
    [k |-> x.k,
     c |-> [p \in 1..Order(x) |->
              MkCore(1, ISize(x.c[p]), JSize(x.c[p]), 1,
                     LAMBDA a, i, j, b : IF p = 1 THEN c ELSE GOne)]]

TAdd(x, y) == TAddSame(x, IF x.k = "tt" THEN TBroadcast(y, IDims(x)) ELSE y)
TSub(x, y) == TAddSame(x, TNeg(IF x.k = "tt" THEN TBroadcast(y, IDims(x)) ELSE y))
TAddScalar(x, c) == TAddSame(x, TConstLike(x, c))

\* ---- elementwise product: Kronecker product of the rank spaces
TMulSame(x, y) ==
    [k |-> x.k,
     c |-> [p \in 1..Order(x) |->
        LET cx == x.c[p]  cy == y.c[p]  ly == LRank(cy)  ry == RRank(cy) IN
        MkCore(LRank(cx) * ly, ISize(cx), JSize(cx), RRank(cx) * ry, LAMBDA a, i, j, b :
            GMul(cx[((a - 1) \div ly) + 1][i][j][((b - 1) \div ry) + 1],
                 cy[((a - 1) % ly) + 1][i][j][((b - 1) % ry) + 1]))]]
TMul(x, y) == TMulSame(x, IF x.k = "tt" THEN TBroadcast(y, IDims(x)) ELSE y)

\* ---- Kronecker product: cores concatenated
TKron(x, y) == [k |-> x.k, c |-> x.c \o y.c]

\* ---- operator products.  A tensor is an operator with unit column modes, so
\*      A@x is the operator product; x@A contracts the tensor mode with A's rows.
TMatMat(A, B, kind) ==
    [k |-> kind,
     c |-> [p \in 1..Order(A) |->
        LET ca == A.c[p]  cb == B.c[p]  lb == LRank(cb)  rb == RRank(cb) IN
        MkCore(LRank(ca) * lb, ISize(ca), JSize(cb), RRank(ca) * rb, LAMBDA a, i, j, b :
            GSum([k2 \in 1..JSize(ca) |->
                GMul(ca[((a - 1) \div lb) + 1][i][k2][((b - 1) \div rb) + 1],
                     cb[((a - 1) % lb) + 1][k2][j][((b - 1) % rb) + 1])]))]]
TMatVec(A, x) == TMatMat(A, x, "tt")
TVecMat(x, A) ==
    [k |-> "tt",
     c |-> [p \in 1..Order(A) |->
        LET ca == A.c[p]  cx == x.c[p]  lx == LRank(cx)  rx == RRank(cx) IN
        MkCore(LRank(ca) * lx, JSize(ca), 1, RRank(ca) * rx, LAMBDA a, i, j, b :
            GSum([k2 \in 1..ISize(ca) |->
                GMul(cx[((a - 1) % lx) + 1][k2][1][((b - 1) % rx) + 1],
                     ca[((a - 1) \div lx) + 1][k2][i][((b - 1) \div rx) + 1])]))]]
TTranspose(A) ==
    [k |-> "ttm",
     c |-> [p \in 1..Order(A) |->
        MkCore(LRank(A.c[p]), JSize(A.c[p]), ISize(A.c[p]), RRank(A.c[p]),
               LAMBDA a, i, j, b : A.c[p][a][j][i][b])]]
TConj(x) ==
    [k |-> x.k,
     c |-> [p \in 1..Order(x) |->
        MkCore(LRank(x.c[p]), ISize(x.c[p]), JSize(x.c[p]), RRank(x.c[p]),
               LAMBDA a, i, j, b : GConj(x.c[p][a][i][j][b]))]]
TToTTM(x) == [k |-> "ttm", c |-> x.c]
\* diag: tensor -> diagonal operator, operator (square modes) -> its diagonal
TDiagEmbed(x) ==
    [k |-> "ttm",
     c |-> [p \in 1..Order(x) |->
        MkCore(LRank(x.c[p]), ISize(x.c[p]), ISize(x.c[p]), RRank(x.c[p]),
               LAMBDA a, i, j, b : IF i = j THEN x.c[p][a][i][1][b] ELSE GZero)]]
TDiagExtract(A) ==
    [k |-> "tt",
     c |-> [p \in 1..Order(A) |->
        MkCore(LRank(A.c[p]), ISize(A.c[p]), 1, RRank(A.c[p]),
               LAMBDA a, i, j, b : A.c[p][a][i][i][b])]]

\* rank laws (what the property statements call "the documented rank structure")
RanksAdd(rx, ry) == [p \in 1..Len(rx) |-> IF p = 1 \/ p = Len(rx) THEN 1 ELSE rx[p] + ry[p]]
RanksMul(rx, ry) == [p \in 1..Len(rx) |-> rx[p] * ry[p]]
RanksBroadcast(ry, d) ==    \* ranks of y after broadcasting to order d
    [p \in 1..(d + 1) |-> IF p <= d + 1 - Len(ry) THEN 1 ELSE ry[p - (d + 1 - Len(ry))]]
=============================================================================
