SPECIFICATION Spec
CONSTANTS
  OPS <- MC_OPS
  SHAPES <- Q_SHAPES
  RANKS = {1, 2, 4}
  EPSEXP = {12, 6}
  GUESS = {"none", "fresh", "alias", "reused", "zero"}
  SEEDS = {1, 2}
  BACKENDS = {"py"}
  PREC = {}
  MAXFULL = {}
  SOLVER = {}
  SCALES = {"unit", "small"}
  SYSCLS = {}
  OPTS = {"verbose", "nswp40", "kick1", "iters"}
INVARIANT WellTyped
CHECK_DEADLOCK FALSE
