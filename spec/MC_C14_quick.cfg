SPECIFICATION Spec
CONSTANTS
  OPS <- MC_OPS
  SHAPES <- Q_SHAPES
  RANKS = {1, 3}
  EPSEXP = {8, 4}
  GUESS = {"none", "fresh", "big", "reused", "sweep1", "sweep2"}
  SEEDS = {1, 2}
  BACKENDS = {"py"}
  PREC = {}
  MAXFULL = {}
  SOLVER = {}
  SCALES = {"unit", "bigcore", "small"}
  SYSCLS = {}
  OPTS = {"verbose", "nswp40"}
INVARIANT WellTyped
CHECK_DEADLOCK FALSE
