SPECIFICATION Spec
CONSTANTS
  SHAPES <- T_SHAPES
INVARIANT ShapeOK
INVARIANT AllConsumed
INVARIANT Budget
INVARIANT Termination
CHECK_DEADLOCK TRUE
