SPECIFICATION Spec
CONSTANTS
  SHAPES <- MC_SHAPES
  GUESS = {"none", "fresh", "alias", "reused"}
INVARIANT OnlyDocumentedMutation
INVARIANT GuessIsAnArgument
CHECK_DEADLOCK FALSE
