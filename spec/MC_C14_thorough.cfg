SPECIFICATION Spec
CONSTANTS
  OPS <- MC_OPS
  SHAPES <- T_SHAPES
  RANKS = {1, 2, 4}
  EPSEXP = {10, 6, 3}
  GUESS = {"none", "fresh", "big", "reused", "sweep1", "sweep2"}
  SEEDS = {1, 2, 3, 4}
  BACKENDS = {"py"}
  PREC = {}
  MAXFULL = {}
  SOLVER = {}
  SCALES = {"unit", "bigcore", "small"}
  SYSCLS = {}
  OPTS = {"verbose", "nswp40"}
INVARIANT WellTyped
CHECK_DEADLOCK FALSE
