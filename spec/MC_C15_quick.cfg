SPECIFICATION Spec
CONSTANTS
  SHAPES <- Q_SHAPES
  DEPTH = 1
  TRACK = {"x", "x0", "xl", "xr", "xw2", "y", "xy", "wx"}
INVARIANT WellTyped
CHECK_DEADLOCK FALSE
