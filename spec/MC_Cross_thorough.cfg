SPECIFICATION Spec
CONSTANTS
  RADD = "fromR"
  SHAPES <- T_SHAPES
  KICKS = {1, 2}
  NSWEEPS = 2
INVARIANT Conformable
INVARIANT IdxCovers
INVARIANT RanksValid
CHECK_DEADLOCK FALSE
