------------------------------- MODULE MC_Heap ------------------------------
EXTENDS Heap
IntI(v) == [t |-> "i", v |-> v]
Sl(lo, hi, st) == [t |-> "s", lo |-> lo, hi |-> hi, st |-> st]
AllFull(d) == [p \in 1..d |-> FullSlice]
MC_EXPRS(sh) ==
    LET d == Len(sh) IN
    {[AllFull(d) EXCEPT ![q] = IntI(0)] : q \in 1..d} \cup {[AllFull(d) EXCEPT ![q] = Sl(0, 1, 1)] : q \in 1..d}
    \cup {<<[t |-> "n"]>> \o AllFull(d), <<[t |-> "e"], IntI(-1)>>, [AllFull(d) EXCEPT ![d] = Sl(NONE, NONE, 2)]}
MC_HINIT == {
  << StT(<<2, 3>>, <<1, 2, 1>>, 1, FALSE), StT(<<3>>, <<1, 1>>, 2, FALSE) >>,
  << StT(<<2, 1, 3>>, <<1, 2, 2, 1>>, 1, FALSE), StT(<<1, 3>>, <<1, 2, 1>>, 2, FALSE) >>,
  << StM(<<2, 3>>, <<3, 2>>, <<1, 2, 1>>, 1, FALSE), StT(<<3, 2>>, <<1, 2, 1>>, 2, FALSE) >>,
  << StM(<<2, 1>>, <<2, 1>>, <<1, 2, 1>>, 1, TRUE), StM(<<2, 1>>, <<2, 1>>, <<1, 1, 1>>, 2, TRUE) >>,
  << StT(<<3>>, <<1, 1>>, 1, FALSE), StT(<<1>>, <<1, 1>>, 2, FALSE) >>,
  << StT(<<2, 2, 2>>, <<1, 2, 2, 1>>, 1, TRUE) >> }
\* thorough: depth 3 from three of the initial heaps (tensor with singleton modes, rectangular operator, complex operator)
T_HINIT == { h \in MC_HINIT : h[1].I \in {<<2, 1, 3>>, <<2, 3>>, <<2, 1>>} /\ (h[1].k = "ttm" \/ Len(h[1].I) = 3) }
MC_HOPS == {"add", "sub", "mul", "matmul", "kron", "cat", "neg", "clone", "conj", "t", "to_ttm", "diag", "mul_s", "div_s",
            "add_s", "rsub_s", "sum", "index", "pad", "full", "norm", "sum_all", "numpy", "repr", "set_core", "reduce_dims"}
=============================================================================
