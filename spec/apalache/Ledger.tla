-------------------------------- MODULE Ledger --------------------------------
(***************************************************************************)
(* The budget argument of the truncation sweep as an inductive invariant,   *)
(* for unbounded energies (checked with Apalache, not TLC):                 *)
(* a sweep over d-1 bonds, each discarding at most (eps^2/(d-1)) times the  *)
(* *current* remainder, discards at most eps^2 times the total.             *)
(* eps^2 = P/Q.  Energies are arbitrary naturals.                           *)
(***************************************************************************)
EXTENDS Integers

CONSTANTS
    \* @type: Int;
    D,
    \* @type: Int;
    P,
    \* @type: Int;
    Q,
    \* @type: Int;
    TOTAL

VARIABLES
    \* @type: Int;
    i,
    \* @type: Int;
    rem,
    \* @type: Int;
    disc

ConstInit == D \in 2..8 /\ Q \in 1..100 /\ P \in 0..Q /\ TOTAL \in Nat

Init == i = 1 /\ rem = TOTAL /\ disc = 0

Next == /\ i <= D - 1
        /\ \E tail \in 0..rem :
             /\ tail * Q * (D - 1) <= P * rem          \* the chop contract at this bond
             /\ disc' = disc + tail
             /\ rem' = rem - tail
        /\ i' = i + 1

\* inductive invariant
IndInv == /\ i >= 1 /\ i <= D
          /\ rem >= 0 /\ disc >= 0
          /\ rem + disc = TOTAL
          /\ disc * Q * (D - 1) <= (i - 1) * P * TOTAL

\* the same as an initial predicate in assignment form (for the inductive step)
IndInit == i \in 1..8 /\ rem \in Nat /\ disc \in Nat /\ IndInv

\* the property: at any time, and in particular at the end, the discarded energy is within eps^2 * total
ErrBound == disc * Q <= P * TOTAL
=============================================================================
