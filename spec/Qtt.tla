--------------------------------- MODULE Qtt ---------------------------------
(***************************************************************************)
(* Shape calculus of TT.to_qtt (tensor branch) and TT.qtt_to_tens.         *)
(*  to_qtt(mode_size = b): a mode of size n with L = floor(log_b n) >= 2   *)
(*  and n = b^L is split into L modes of size b; a mode of size b or 1 is  *)
(*  kept; any other size is rejected (ShapeMismatch).                      *)
(*  qtt_to_tens(shape): consecutive modes are multiplied up until the      *)
(*  product equals the next requested size; all requested sizes have to be *)
(*  reached and all modes used.                                            *)
(*   RoundTrip   regrouping the QTT shape of N with the request N gives N  *)
(***************************************************************************)
EXTENDS Integers, Sequences, FiniteSets, SequencesExt, TLC

CONSTANTS NSET, MAXD, BS    \* mode sizes tried, maximal order, QTT mode sizes (the optional argument mode_size)
VARIABLES N, q, back, ms
vars == <<N, q, back, ms>>

RECURSIVE ILog(_, _)
ILog(n, b) == IF n < b THEN 0 ELSE 1 + ILog(n \div b, b)       \* floor(log_b n), exact
RECURSIVE Pow(_, _)
Pow(b, k) == IF k = 0 THEN 1 ELSE b * Pow(b, k - 1)
IsPow(n, b) == Pow(b, ILog(n, b)) = n

\* result of to_qtt: <<"ok", shape>> or <<"err">>
RECURSIVE QShape(_, _)
QShape(s, b) ==
    IF s = <<>> THEN <<>>
    ELSE LET n == s[1]  L == ILog(n, b) IN
         (IF L >= 2 THEN [k \in 1..L |-> b] ELSE <<n>>) \o QShape(Tail(s), b)
QttOk(s, b) == \A k \in 1..Len(s) : IsPow(s[k], b)
\* qtt_to_tens: regroup modes of qs to reach the sizes of orig; returns <<>> when it fails
RECURSIVE Regroup(_, _, _, _)
Regroup(qs, orig, sofar, acc) ==
    IF qs = <<>> THEN (IF Len(acc) = Len(orig) /\ sofar = 0 THEN acc ELSE <<-1>>)
    ELSE LET now == (IF sofar = 0 THEN 1 ELSE sofar) * qs[1] IN
         IF Len(acc) < Len(orig) /\ now = orig[Len(acc) + 1]
         THEN Regroup(Tail(qs), orig, 0, Append(acc, now))
         ELSE Regroup(Tail(qs), orig, now, acc)

Init == /\ \E d \in 1..MAXD : N \in [1..d -> NSET]
        /\ ms \in BS
        /\ q = <<>> /\ back = <<>>
ToQtt == /\ q = <<>> /\ QttOk(N, ms)
         /\ q' = QShape(N, ms) /\ UNCHANGED <<N, back, ms>>
Back == /\ q # <<>> /\ back = <<>>
        /\ back' = Regroup(q, N, 0, <<>>) /\ UNCHANGED <<N, q, ms>>
Spec == Init /\ [][ToQtt \/ Back]_vars

AllB == q # <<>> => \A k \in 1..Len(q) : q[k] \in {ms, 1}
RoundTrip == back # <<>> => back = N
=============================================================================
