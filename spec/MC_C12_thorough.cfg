SPECIFICATION Spec
CONSTANTS
  OPS <- MC_OPS
  SHAPES <- T_SHAPES
  RANKS = {1, 2, 4}
  EPSEXP = {10, 6, 3}
  GUESS = {"none", "fresh", "big", "reused", "zero"}
  SEEDS = {1, 2}
  BACKENDS = {"py"}
  PREC = {"none", "c", "r"}
  MAXFULL = {0, 500}
  SOLVER = {1, 2}
  SCALES = {"unit", "small"}
  SYSCLS = {"spd", "diagdom", "laplace", "diagvar"}
  OPTS = {"verbose", "nswp40", "kick1", "kick22", "iters", "rmax64", "band1", "band2"}
INVARIANT WellTyped
CHECK_DEADLOCK FALSE
