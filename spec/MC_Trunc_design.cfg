SPECIFICATION Spec
CONSTANTS
  CFGS <- Q_CFGS
  SPECTRA <- D_SPECTRA
  INFL = {0}
  NESTEDONLY = FALSE
INVARIANT ErrBound
INVARIANT RankBound
INVARIANT Energy
CHECK_DEADLOCK FALSE
