SPECIFICATION Spec
CONSTANTS
  SHAPES <- MC_SHAPES
  KICKS = {0, 1, 4}
  NSWP = 3
  RY0 = {1, 2, 5}
INVARIANT RanksOK
INVARIANT RowsBound
INVARIANT ExitOK
INVARIANT Bounded
CHECK_DEADLOCK TRUE
