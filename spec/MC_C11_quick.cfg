SPECIFICATION Spec
CONSTANTS
  OPS <- MC_OPS
  SHAPES <- Q_SHAPES
  RANKS = {1, 3}
  EPSEXP = {10, 4, 1}
  GUESS = {"none", "fresh", "big", "alias", "reused", "exact1", "exact2", "zero"}
  SEEDS = {1}
  BACKENDS = {"py"}
  PREC = {}
  MAXFULL = {}
  SOLVER = {}
  SCALES = {"unit", "bigcore", "small"}
  SYSCLS = {}
  OPTS = {"verbose", "nswp40", "kick1", "kick22", "rmax64"}
INVARIANT WellTyped
CHECK_DEADLOCK FALSE
