------------------------------- MODULE TTCore -------------------------------
(***************************************************************************)
(* Exact semantics of tensor-train objects over the Gaussian integers.     *)
(*                                                                         *)
(* One representation serves TT tensors and TT matrices: every core is a   *)
(* 4-way array  c[a][i][j][b]  (left rank, row mode, column mode, right    *)
(* rank, all 1-based).  A TT *tensor* of shape N is the special case whose *)
(* column modes are all 1 (this is exactly what torchtt's to_ttm() states).*)
(* Entries are pairs <<re, im>> of integers, so that real and complex data *)
(* share one definition (real data has im = 0 everywhere).                 *)
(*                                                                         *)
(* A dense value is a record [sh |-> shape, v |-> row-major flat sequence].*)
(* For an operator the dense shape is  M1..Md ++ N1..Nd  (rows first), the *)
(* layout torchtt's full() promises.                                       *)
(***************************************************************************)
EXTENDS Integers, Sequences, FiniteSets, SequencesExt, TLC

\* ---------------------------------------------------------------- numbers
GZero == <<0, 0>>
GOne  == <<1, 0>>
GAdd(x, y)  == <<x[1] + y[1], x[2] + y[2]>>
GSub(x, y)  == <<x[1] - y[1], x[2] - y[2]>>
GNeg(x)     == <<0 - x[1], 0 - x[2]>>
GMul(x, y)  == <<x[1]*y[1] - x[2]*y[2], x[1]*y[2] + x[2]*y[1]>>
GConj(x)    == <<x[1], 0 - x[2]>>
GSum(s)     == FoldLeft(GAdd, GZero, s)
GAbs2(x)    == x[1]*x[1] + x[2]*x[2]

IMul(a, b) == a * b
IAdd(a, b) == a + b
Prod(s) == FoldLeft(IMul, 1, s)
SumSeq(s) == FoldLeft(IAdd, 0, s)
Ones(n) == [p \in 1..n |-> 1]
Max2(a, b) == IF a >= b THEN a ELSE b
Min2(a, b) == IF a <= b THEN a ELSE b

\* ------------------------------------------------------------------ cores
LRank(c) == Len(c)
ISize(c) == Len(c[1])
JSize(c) == Len(c[1][1])
RRank(c) == Len(c[1][1][1])

MkCore(r1, m, n, r2, F(_, _, _, _)) ==
    [a \in 1..r1 |-> [i \in 1..m |-> [j \in 1..n |-> [b \in 1..r2 |-> F(a, i, j, b)]]]]

\* an object: kind + cores
Order(x) == Len(x.c)
IDims(x) == [p \in 1..Order(x) |-> ISize(x.c[p])]
JDims(x) == [p \in 1..Order(x) |-> JSize(x.c[p])]
Ranks(x) == [p \in 1..(Order(x) + 1) |->
               IF p <= Order(x) THEN LRank(x.c[p]) ELSE RRank(x.c[Order(x)])]

\* the descriptor the library reports: N (and M for operators), R
Desc(x) == [k |-> x.k,
            N |-> IF x.k = "tt" THEN IDims(x) ELSE JDims(x),
            M |-> IF x.k = "tt" THEN <<>> ELSE IDims(x),
            R |-> Ranks(x)]

\* structural well-formedness (property C05): cores chain, boundary ranks 1,
\* a tensor has no column modes
WFObj(x) ==
    /\ x.k \in {"tt", "ttm"}
    /\ Order(x) >= 1
    /\ LRank(x.c[1]) = 1
    /\ RRank(x.c[Order(x)]) = 1
    /\ \A p \in 1..(Order(x) - 1) : RRank(x.c[p]) = LRank(x.c[p + 1])
    /\ \A p \in 1..Order(x) :
          /\ ISize(x.c[p]) >= 1 /\ JSize(x.c[p]) >= 1
          /\ \A a \in 1..LRank(x.c[p]) : \A i \in 1..ISize(x.c[p]) :
                /\ Len(x.c[p][a]) = ISize(x.c[p])
                /\ Len(x.c[p][a][i]) = JSize(x.c[p])
                /\ \A j \in 1..JSize(x.c[p]) : Len(x.c[p][a][i][j]) = RRank(x.c[p])
    /\ (x.k = "tt" => \A p \in 1..Order(x) : JSize(x.c[p]) = 1)

\* ------------------------------------------------------------ dense values
RECURSIVE Unflat(_, _)
Unflat(q, sh) ==      \* q zero-based flat position -> 1-based multi-index
    IF sh = <<>> THEN <<>>
    ELSE LET m == Prod(Tail(sh)) IN <<(q \div m) + 1>> \o Unflat(q % m, Tail(sh))

RECURSIVE Flat(_, _)
Flat(ix, sh) ==       \* inverse of Unflat: zero-based position
    IF sh = <<>> THEN 0
    ELSE (ix[1] - 1) * Prod(Tail(sh)) + Flat(Tail(ix), Tail(sh))

DenseOf(sh, F(_)) == [sh |-> sh, v |-> [q \in 1..Prod(sh) |-> F(Unflat(q - 1, sh))]]
At(D, ix) == D.v[Flat(ix, D.sh) + 1]

\* the vector of partial products after cores 1..p at row index ii, column index jj
RECURSIVE ChainVec(_, _, _, _)
ChainVec(x, ii, jj, p) ==
    IF p = 0 THEN <<GOne>>
    ELSE LET prev == ChainVec(x, ii, jj, p - 1)
             core == x.c[p]
         IN  [b \in 1..RRank(core) |->
                GSum([a \in 1..LRank(core) |-> GMul(prev[a], core[a][ii[p]][jj[p]][b])])]

EntryOf(x, ii, jj) == ChainVec(x, ii, jj, Order(x))[1]

DenseShape(x) == IF x.k = "tt" THEN IDims(x) ELSE IDims(x) \o JDims(x)

Full(x) ==
    LET d == Order(x) IN
    DenseOf(DenseShape(x),
            LAMBDA ix : EntryOf(x, SubSeq(ix, 1, d),
                                IF x.k = "tt" THEN Ones(d) ELSE SubSeq(ix, d + 1, 2 * d)))

\* --------------------------------------------------- canonical integer fill
\* A "structure" S = [k, I, J, R, f, cx] names a concrete object: the entry
\* of core p at (a,i,j,b) is a fixed small pseudo-random integer.  The same
\* closed formula is implemented by the harness (vf/fill.py), so the model
\* and the implementation are run on identical data.
\* fill 0 is the object whose cores are all zero (the zero tensor stored with the ranks of the structure)
FillRe(f, p, a, i, j, b) ==
    IF f = 0 THEN 0 ELSE ((f*29 + p*p*13 + a*a*7 + i*i*3 + j*5 + b*b*11 + a*i + 2*i*b + a*b*j + p*i*j) % 7) - 3
FillIm(f, p, a, i, j, b) ==
    IF f = 0 THEN 0 ELSE ((f*23 + p*5 + a*3 + i*i*7 + j*j*11 + b*13 + a*i*b + p*j) % 5) - 2

Mk(S) ==
    [k |-> S.k,
     c |-> [p \in 1..Len(S.I) |->
              MkCore(S.R[p], S.I[p], S.J[p], S.R[p + 1],
                     LAMBDA a, i, j, b :
                        <<FillRe(S.f, p, a, i, j, b),
                          IF S.cx THEN FillIm(S.f, p, a, i, j, b) ELSE 0>>)]]

\* structures: TT tensor / TT matrix
StT(N, R, f, cx) == [k |-> "tt", I |-> N, J |-> Ones(Len(N)), R |-> R, f |-> f, cx |-> cx]
StM(M, N, R, f, cx) == [k |-> "ttm", I |-> M, J |-> N, R |-> R, f |-> f, cx |-> cx]

\* all sequences of length n over the set S
SeqsOf(S, n) == [1..n -> S]
\* all rank profiles <<1, r1, .., r_{d-1}, 1>> with interior ranks from RS
RankProfiles(d, RS) == {<<1>> \o r \o <<1>> : r \in SeqsOf(RS, d - 1)}
=============================================================================
