SPECIFICATION Spec
CONSTANTS
  TS <- Q_TS
  MS <- Q_MS
  SC <- MC_SC
  OPS <- MC_OPS
  BATCH <- MC_BATCH
  ITEMS <- MC_ITEMS
  WIDTHS <- MC_WIDTHS
INVARIANT DesignOK
INVARIANT RankLawOK
CHECK_DEADLOCK FALSE
