---------------------------- MODULE MC_RankChop -----------------------------
EXTENDS RankChop
\* energies of integer singular values 0..4 (and 10), spectra up to length 5 (quick: 4);
\* thresholds = squares of the dyadic eps values k/2 (exactly representable: ties are real ties in floating point)
Q_EN == {0, 1, 4, 9, 16}
T_EN == {0, 1, 4, 9, 16, 100}
MC_TH == { <<k * k, 4>> : k \in 0..12 }          \* eps = k/2, threshold energy k^2/4
=============================================================================
