SPECIFICATION Spec
CONSTANTS
  NSET = {1, 2, 3, 4, 6, 8, 16}
  MAXD = 3
  B = 2
INVARIANT AllB
INVARIANT RoundTrip
CHECK_DEADLOCK FALSE
