SPECIFICATION Spec
CONSTANTS
  NSET = {1, 2, 3, 4, 6, 8, 9, 16, 27}
  MAXD = 3
  BS = {2, 3, 4}
INVARIANT AllB
INVARIANT RoundTrip
CHECK_DEADLOCK FALSE
