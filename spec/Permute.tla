------------------------------- MODULE Permute -------------------------------
(***************************************************************************)
(* torchtt.permute: the bubble sort over adjacent modes (each swap is one  *)
(* supercore SVD truncated at eps / d^1.5).                                *)
(*   indices[k]  = input mode currently at position k                      *)
(*   dims        = requested order: result mode k must be input mode       *)
(*                 dims[k]                                                 *)
(* A pass walks i = 1..d-1 and swaps positions i, i+1 when the input mode  *)
(* at i has to come after the one at i+1; passes repeat until a pass makes *)
(* no swap.                                                                *)
(*   Sorted   at the end indices = dims                                    *)
(*   Budget   #swaps <= d(d-1)/2, hence #swaps * (eps/d^1.5)^2 <= eps^2    *)
(***************************************************************************)
EXTENDS Integers, Sequences, FiniteSets, SequencesExt, TLC

CONSTANTS MAXD
VARIABLES dims, indices, i, inv, swaps, pc
vars == <<dims, indices, i, inv, swaps, pc>>

Perms(d) == {p \in [1..d -> 1..d] : \A a, b \in 1..d : a # b => p[a] # p[b]}
PosIn(p, v) == CHOOSE k \in 1..Len(p) : p[k] = v

Init == /\ \E d \in 1..MAXD : dims \in Perms(d) /\ indices = [k \in 1..d |-> k]
        /\ i = 1 /\ inv = FALSE /\ swaps = 0 /\ pc = "pass"

Step ==
    /\ pc = "pass"
    /\ LET d == Len(dims) IN
       IF i <= d - 1
       THEN /\ IF PosIn(dims, indices[i]) > PosIn(dims, indices[i + 1])
               THEN /\ indices' = [indices EXCEPT ![i] = indices[i + 1], ![i + 1] = indices[i]]
                    /\ inv' = TRUE /\ swaps' = swaps + 1
               ELSE UNCHANGED <<indices, inv, swaps>>
            /\ i' = i + 1 /\ pc' = "pass"
       ELSE /\ IF inv THEN i' = 1 /\ inv' = FALSE /\ pc' = "pass"
                     ELSE pc' = "done" /\ UNCHANGED <<i, inv>>
            /\ UNCHANGED <<indices, swaps>>
    /\ UNCHANGED dims
Done == pc = "done" /\ UNCHANGED vars
Spec == Init /\ [][Step \/ Done]_vars

Sorted == pc = "done" => indices = dims
Budget == 2 * swaps <= Len(dims) * (Len(dims) - 1)
\* swaps * (eps/d^1.5)^2 <= eps^2  <=>  swaps <= d^3
BudgetEps == swaps <= Len(dims) * Len(dims) * Len(dims)
=============================================================================
