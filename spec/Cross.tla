-------------------------------- MODULE Cross --------------------------------
(***************************************************************************)
(* Index-set and rank bookkeeping of the two-site DMRG cross approximation *)
(* (torchtt/interpolate.py dmrg_cross; function_interpolate has the same   *)
(* structure).  Positions are 0-based as in the code: cores 0..d-1, ranks  *)
(* rank[0..d], index sets Idx[0..d] (Idx[k] has rank[k] rows / columns).   *)
(*                                                                         *)
(* One supercore step (k, k+1):                                            *)
(*   Eval   the user function is called with an index matrix of            *)
(*          rank[k]*N[k]*N[k+1]*rank[k+2] rows and d columns, column j in  *)
(*          [0, N[j]) (left part from Idx[k], right part from Idx[k+2])    *)
(*   SVD    of the (rank[k] N[k]) x (N[k+1] rank[k+2]) supercore, rank rn  *)
(*          chosen by rank_chop(..)+1, at most min(rows, cols)             *)
(*   Kick   QR of [U, random(.., kick)]: Q has q = min(rows, rn+kick)      *)
(*          columns, its R factor rn+kick columns; the other factor is     *)
(*          zero-padded by radd rows and multiplied by R                   *)
(*   Update rank[k+1] = q; maxvol picks q rows: |Idx[k+1]| = q             *)
(*                                                                         *)
(* RADD = "fromR": radd = (columns of R) - rn   (function_interpolate, and *)
(*                 dmrg_cross after the repair)                            *)
(* RADD = "fromQ": radd = (columns of Q) - rn   (dmrg_cross before)        *)
(*                                                                         *)
(*   Conformable  every product in the step has matching inner dimensions  *)
(*   IdxCovers    the index sets have as many rows as the ranks they serve *)
(***************************************************************************)
EXTENDS Integers, Sequences, FiniteSets, SequencesExt, TLC

CONSTANTS RADD

Min2(a, b) == IF a <= b THEN a ELSE b

\* state of one run: N (sequence, 1-based storage of the 0-based modes), rank / nidx as sequences of length d+1
\* rank adjustments made by the orthogonalisation passes before the first sweep:
\*   left-to-right pass  rank[k+1] = min(rank[k]*N[k], rank[k+1])   k = 0..d-2
\*   right-to-left pass  rank[k]   = min(N[k]*rank[k+1], rank[k])   k = d-1..1
\* both routines: RL pass, LR pass (rl_orthogonal, lr_orthogonal), then the RL loop that builds the index sets and
\* assumes rank[k] <= N[k]*rank[k+1].  (dmrg_cross used to skip the first RL pass: a start tensor with larger
\* ranks then violated that assumption - finding F30, repaired.)
PassLR(N, r0) ==
    LET d == Len(N)
        RECURSIVE FixL(_, _)
        FixL(r, k) == IF k > d - 2 THEN r
                      ELSE FixL([r EXCEPT ![k + 2] = Min2(r[k + 1] * N[k + 1], r[k + 2])], k + 1)
    IN FixL(r0, 0)
PassRL(N, r0) ==
    LET d == Len(N)
        RECURSIVE Fix(_, _)
        Fix(r, k) == IF k < 1 THEN r
                     ELSE Fix([r EXCEPT ![k + 1] = Min2(N[k + 1] * r[k + 2], r[k + 1])], k - 1)
    IN Fix(r0, d - 1)
SweepInit0(N, rank0) == PassRL(N, PassLR(N, PassRL(N, rank0)))
\* what the index-set loop relies on
Admissible(N, r) == \A k \in 1..(Len(N) - 1) : r[k + 1] <= N[k + 1] * r[k + 2]

\* rows / cols of the supercore at step k (0-based), ranks r (1-based storage: r[k+1] = rank[k])
SRows(N, r, k) == r[k + 1] * N[k + 1]
SCols(N, r, k) == N[k + 2] * r[k + 3]
EvalRows(N, r, k) == r[k + 1] * N[k + 1] * N[k + 2] * r[k + 3]

\* result of the kick for a chosen rn: <<q, conformable>>
Kick(side, rn, kick) ==
    LET q == Min2(side, rn + kick)
        radd == IF RADD = "fromR" THEN kick ELSE q - rn
        \* the other factor has rn + radd rows after padding (rn if radd <= 0, and then the product with R is skipped)
        conf == IF radd > 0 THEN rn + radd = rn + kick
                ELSE kick = 0 \/ q = rn + kick     \* skipping R is only right when nothing was added
    IN <<q, conf>>
=============================================================================
