SPECIFICATION Spec
CONSTANTS
  TS <- T_TS
  MS <- T_MS
  SC <- MC_SC
  OPS <- MC_OPS
  BATCH <- MC_BATCH
  ITEMS <- MC_ITEMS
  WIDTHS <- MC_WIDTHS
INVARIANT DesignOK
INVARIANT RankLawOK
CHECK_DEADLOCK FALSE
