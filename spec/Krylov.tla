-------------------------------- MODULE Krylov --------------------------------
(***************************************************************************)
(* Control automaton of the restarted GMRES used for the local systems of  *)
(* amen_solve and amen_divide (torchtt/_iterative_solvers.py:              *)
(* gmres_restart / gmres).  One call solves an n x n system with at most   *)
(* `resets` cycles; a cycle runs Arnoldi steps until the residual estimate *)
(* falls below the threshold or the step budget of the cycle is used up.   *)
(*                                                                         *)
(*   StepBound   a cycle performs at most min(maxit, n) Arnoldi steps: the *)
(*               Krylov space of an n x n system has at most n dimensions  *)
(*               (finding F31: steps beyond n orthogonalise roundoff and   *)
(*               end in 0/0)                                               *)
(*   FlagOK      a cycle reports convergence only with an estimate below   *)
(*               the threshold; a cycle that does not converge used its    *)
(*               whole budget                                              *)
(*   ExitOK      the call ends after a converged cycle or after `resets`   *)
(*               cycles, and reports convergence iff its last cycle did    *)
(* BiCGSTAB (BiCGSTAB_reset): at most nmax iterations, and the loop is     *)
(* left early only when the relative residual is below eps (BiOK).         *)
(***************************************************************************)
EXTENDS Integers, Sequences, FiniteSets, TLC

KMin2(a, b) == IF a <= b THEN a ELSE b
Budget(n, maxit) == KMin2(maxit, n)
CycleOK(steps, conv, n, maxit) == /\ steps >= 0 /\ steps <= Budget(n, maxit)
                                  /\ (~conv => steps = Budget(n, maxit))
BiOK(nit, nmax, relres, eps, slack) == /\ nit >= 1 /\ nit <= nmax
                                       /\ (nit < nmax => relres < eps + slack)
=============================================================================
