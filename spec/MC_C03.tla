------------------------------- MODULE MC_C03 -------------------------------
EXTENDS Alg
\* quick scope: every TT tensor of order <= 3 over sizes {1,2,3}, interior ranks {1,2},
\* real and complex, plus canonical profiles of order 4-5 with pairwise distinct sizes/ranks.
\* thorough scope: interior ranks {1,2,3}, two independent fills.
Sizes == {1, 2, 3}
Shapes == UNION {SeqsOf(Sizes, d) : d \in 1..3}
Small(RS, FS) == UNION { {StT(N, R, f, cx) : R \in RankProfiles(Len(N), RS), cx \in BOOLEAN, f \in FS} : N \in Shapes }
Canon(FS) == UNION { { StT(<<2, 3, 1, 2>>, <<1, 2, 3, 2, 1>>, f, cx), StT(<<3, 1, 2, 2>>, <<1, 3, 1, 2, 1>>, f, cx),
                 StT(<<1, 2>>, <<1, 3, 1>>, f, cx), StT(<<2, 3>>, <<1, 3, 1>>, f, cx),
                 StT(<<4, 3>>, <<1, 3, 1>>, f, cx), StT(<<3, 4, 2>>, <<1, 3, 2, 1>>, f, cx),
                 StT(<<4, 2>>, <<1, 2, 1>>, f, cx), StT(<<1, 2>>, <<1, 2, 1>>, f, cx),
                 StT(<<2, 1, 3, 2, 2>>, <<1, 2, 2, 3, 2, 1>>, f, cx), StT(<<3, 2, 2>>, <<1, 2, 3, 1>>, f, cx)} : f \in FS, cx \in BOOLEAN }
Q_TS == Small({1, 2}, {1}) \cup Canon({1})
T_TS == Small({1, 2, 3}, {1, 4}) \cup Canon({1, 4})
\* a few rectangular operator structures: the factories of the C03 statement (ones, zeros, eye) also take operator shapes
MC_MS == { StM(<<2>>, <<3>>, <<1, 1>>, 1, FALSE), StM(<<3, 1>>, <<1, 2>>, <<1, 1, 1>>, 1, FALSE), StM(<<2, 3>>, <<3, 2>>, <<1, 1, 1>>, 1, TRUE),
           StM(<<1, 2, 3>>, <<2, 2, 1>>, <<1, 1, 1, 1>>, 1, FALSE) }
MC_SC == { [kind |-> "int", re |-> 2, im |-> 0], [kind |-> "int", re |-> -3, im |-> 0],
           [kind |-> "float", re |-> 2, im |-> 0], [kind |-> "bool", re |-> 1, im |-> 0],
           [kind |-> "npf64", re |-> -2, im |-> 0], [kind |-> "npf32", re |-> 2, im |-> 0],
           [kind |-> "npi64", re |-> 3, im |-> 0],
           [kind |-> "t0d", re |-> 2, im |-> 0], [kind |-> "t1", re |-> -2, im |-> 0],
           [kind |-> "int", re |-> 0, im |-> 0], [kind |-> "float", re |-> 0, im |-> 0],
           [kind |-> "complex", re |-> 1, im |-> 2],
           [kind |-> "intbig", re |-> 16777217, im |-> 0], [kind |-> "tiny", re |-> 3, im |-> 0] }
MC_OPS == {"add", "sub", "mul", "add_rev", "sub_rev", "mul_rev", "neg", "pos", "full", "ones", "zeros", "eye", "rank1", "meshgrid",
           "add_s", "radd_s", "sub_s", "rsub_s", "mul_s", "rmul_s", "div_s", "kron", "kron_none"}
MC_BATCH == {}
MC_ITEMS(n, d) == {}
MC_WIDTHS == {}
=============================================================================
