------------------------------- MODULE TraceAmen ------------------------------
(***************************************************************************)
(* Trace validation of the AMEn sweeps recorded by the hooks in            *)
(* torchtt/solvers.py and torchtt/_amen.py: begin {S, rx, nswp, kick,      *)
(* max_full}, one event per core k < d-1 {swp, k, rows, cols, use_full,    *)
(* r_tr, r_add, r_out, last}, end {rx, sweeps, last}.  Accepted iff it is  *)
(* a behaviour of spec/Amen.tla.  The ledger fields of the step events     *)
(* (amen_mm: norm2, tail2, nsv, cap, crit = dx; amen_solve / amen_divide:  *)
(* crit = res_old, res_new, res_tr; eps) are checked against the accuracy  *)
(* ledger of spec/Dmrg.tla (LastChop, ResTrunc, Converged).                *)
(***************************************************************************)
EXTENDS Amen, Json, IOUtils
Traces == JsonDeserialize(IOEnv.TRACE_FILE).traces
NT == Len(Traces)
VARIABLES tid, l, rx, wasLast
vars == <<tid, l, rx, wasLast>>
ASSUME \A t \in 1..NT : TLCSet(t, 0)
T == Traces[tid]
d == Len(T.S)
DeclaredAfter(s) == \/ \E j \in 1..Len(T.ev) : T.ev[j].swp = s + 1 /\ T.ev[j].last
                    \/ (T.end.sweeps = s + 1 /\ T.end.last /\ \A j \in 1..Len(T.ev) : T.ev[j].swp = s => ~T.ev[j].last)
Init == tid \in 1..NT /\ l = 1 /\ rx = Traces[tid].rx /\ wasLast = FALSE
Next ==
    /\ l <= Len(T.ev)
    /\ LET e == T.ev[l]
           r0 == IF e.k = 0 THEN Orth(T.S, rx) ELSE rx
           rows == Rows(T.S, r0, e.k)  cols == ACols(r0, e.k) IN
       /\ e.k >= 0 /\ e.k <= d - 2 /\ e.swp >= 0 /\ e.swp <= T.nswp - 1
       /\ (l > 1 => IF e.k = 0 THEN T.ev[l - 1].k = d - 2 /\ e.swp = T.ev[l - 1].swp + 1
                              ELSE e.k = T.ev[l - 1].k + 1 /\ e.swp = T.ev[l - 1].swp)
       /\ (l = 1 => e.k = 0 /\ e.swp = 0)
       /\ e.rows = rows /\ e.cols = cols
       /\ e.r_tr >= 1 /\ e.r_tr <= Min2(rows, cols)
       /\ e.r_add >= 0 /\ e.r_add <= T.kick /\ (e.last => e.r_add = 0)
       /\ e.r_out = AStepOut(rows, e.r_tr, e.r_add)
       /\ (T.max_full >= 0 => (e.use_full <=> rows * cols < T.max_full))      \* the documented choice of the local solver
       /\ (wasLast => e.last) /\ (wasLast /\ e.k = 0 => FALSE)
       /\ (e.k > 0 => e.last = T.ev[l - 1].last)                              \* the flag only changes between sweeps
       /\ ("tail2_L" \in DOMAIN e /\ e.last /\ e.r_tr < e.cap /\ e.r_tr < e.nsv                      \* LastChop (amen_mm / amen_mv)
             => LastChopOK(e.tail2_L, e.norm2_L, e.eps_L, T.dm1_L))
       /\ ("res_tr_L" \in DOMAIN e /\ LMeasured(e.res_tr_L)                                          \* ResTrunc (amen_solve / amen_divide)
             => ResTruncOK(e.res_tr_L, e.res_new_L, e.eps_L, T.sqrtd_L))
       /\ ("crit_L" \in DOMAIN e /\ e.k = d - 2 /\ ~e.last /\ DeclaredAfter(e.swp)                  \* Converged
             => \A j \in (l - (d - 2))..l : SmallCrit(T.ev[j].crit_L, e.eps_L))
       /\ rx' = [r0 EXCEPT ![e.k + 2] = e.r_out]
       /\ wasLast' = (IF e.k = d - 2 THEN e.last ELSE wasLast)
    /\ l' = l + 1
    /\ (TLCGet(tid) < l => TLCSet(tid, l))
    /\ UNCHANGED tid
Finish ==
    /\ l = Len(T.ev) + 1
    /\ T.end.rx = rx
    /\ Len(T.ev) = T.end.sweeps * (d - 1)
    /\ (T.end.sweeps < T.nswp => T.end.last)
    /\ TLCSet(tid, Len(T.ev) + 1)
    /\ l' = l + 1 /\ UNCHANGED <<tid, rx, wasLast>>
Spec == Init /\ [][Next \/ Finish]_vars
Accepted == LET bad == {t \in 1..NT : TLCGet(t) # Len(Traces[t].ev) + 1} IN
            \/ bad = {}
            \/ (\A t \in bad : PrintT(<<"REJECTED", t, "matched", TLCGet(t), "of", Len(Traces[t].ev) + 1>>)) /\ FALSE
=============================================================================
