------------------------------- MODULE TraceAmen ------------------------------
(***************************************************************************)
(* Trace validation of the AMEn sweeps recorded by the hooks in            *)
(* torchtt/solvers.py and torchtt/_amen.py: begin {S, rx, nswp, kick,      *)
(* max_full}, one event per core k < d-1 {swp, k, rows, cols, use_full,    *)
(* r_tr, r_add, r_out, last}, end {rx, sweeps, last}.  Accepted iff it is  *)
(* a behaviour of spec/Amen.tla.                                           *)
(***************************************************************************)
EXTENDS Amen, Json, IOUtils
Traces == JsonDeserialize(IOEnv.TRACE_FILE).traces
NT == Len(Traces)
VARIABLES tid, l, rx, wasLast
vars == <<tid, l, rx, wasLast>>
ASSUME \A t \in 1..NT : TLCSet(t, 0)
T == Traces[tid]
d == Len(T.S)
Init == tid \in 1..NT /\ l = 1 /\ rx = Traces[tid].rx /\ wasLast = FALSE
Next ==
    /\ l <= Len(T.ev)
    /\ LET e == T.ev[l]
           r0 == IF e.k = 0 THEN Orth(T.S, rx) ELSE rx
           rows == Rows(T.S, r0, e.k)  cols == ACols(r0, e.k) IN
       /\ e.k >= 0 /\ e.k <= d - 2 /\ e.swp >= 0 /\ e.swp <= T.nswp - 1
       /\ (l > 1 => IF e.k = 0 THEN T.ev[l - 1].k = d - 2 /\ e.swp = T.ev[l - 1].swp + 1
                              ELSE e.k = T.ev[l - 1].k + 1 /\ e.swp = T.ev[l - 1].swp)
       /\ (l = 1 => e.k = 0 /\ e.swp = 0)
       /\ e.rows = rows /\ e.cols = cols
       /\ e.r_tr >= 1 /\ e.r_tr <= Min2(rows, cols)
       /\ e.r_add >= 0 /\ e.r_add <= T.kick /\ (e.last => e.r_add = 0)
       /\ e.r_out = AStepOut(rows, e.r_tr, e.r_add)
       /\ (T.max_full >= 0 => (e.use_full <=> rows * cols < T.max_full))      \* the documented choice of the local solver
       /\ (wasLast => e.last) /\ (wasLast /\ e.k = 0 => FALSE)
       /\ (e.k > 0 => e.last = T.ev[l - 1].last)                              \* the flag only changes between sweeps
       /\ rx' = [r0 EXCEPT ![e.k + 2] = e.r_out]
       /\ wasLast' = (IF e.k = d - 2 THEN e.last ELSE wasLast)
    /\ l' = l + 1
    /\ (TLCGet(tid) < l => TLCSet(tid, l))
    /\ UNCHANGED tid
Finish ==
    /\ l = Len(T.ev) + 1
    /\ T.end.rx = rx
    /\ Len(T.ev) = T.end.sweeps * (d - 1)
    /\ (T.end.sweeps < T.nswp => T.end.last)
    /\ TLCSet(tid, Len(T.ev) + 1)
    /\ l' = l + 1 /\ UNCHANGED <<tid, rx, wasLast>>
Spec == Init /\ [][Next \/ Finish]_vars
Accepted == LET bad == {t \in 1..NT : TLCGet(t) # Len(Traces[t].ev) + 1} IN
            \/ bad = {}
            \/ (\A t \in bad : PrintT(<<"REJECTED", t, "matched", TLCGet(t), "of", Len(Traces[t].ev) + 1>>)) /\ FALSE
=============================================================================
