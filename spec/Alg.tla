--------------------------------- MODULE Alg --------------------------------
(***************************************************************************)
(* One-step behaviours of the TT algebra: an initial state chooses the     *)
(* first operand, then one public operation is applied (second operand,    *)
(* scalar, axes ... drawn from finite sets).  The successor state carries  *)
(* the case (what to call) and the expected outcome (descriptor, exact     *)
(* dense value).  Every reachable state is replayed against the            *)
(* implementation by harness/vf (direction A, spec -> code).               *)
(*                                                                         *)
(* Invariants checked by TLC on the model itself:                          *)
(*   DesignOK  - the core-level construction is well formed and has the    *)
(*               dense value of the dense-level definition                 *)
(*   RankLawOK - its ranks follow the documented law                       *)
(***************************************************************************)
EXTENDS TTOps

CONSTANTS TS,        \* set of TT-tensor structures
          MS,        \* set of TT-matrix structures
          SC,        \* set of scalars [kind, re, im]
          OPS,       \* set of enabled operation names
          BATCH,     \* set of batch shapes for A @ dense
          ITEMS(_, _), \* ITEMS(n, d): index items tried on a mode of size n of an order-d object
          WIDTHS     \* set of padding widths <<before, after>> tried per mode

VARIABLES case, res
vars == <<case, res>>

\* the initial states choose the first operand (this also lets TLC's workers
\* share the enumeration: every initial state is expanded independently)
Init == /\ \E x \in TS \cup MS : case = [op |-> "init", x |-> x]
        /\ res = [t |-> "none", ok |-> TRUE, law |-> TRUE]

Fresh == case.op = "init"
Second(y) == [y EXCEPT !.f = y.f + 1]      \* the second operand gets an independent fill

\* outcome records -----------------------------------------------------------
Re(v) == [q \in 1..Len(v) |-> v[q][1]]
Im(v) == [q \in 1..Len(v) |-> v[q][2]]
\* result object with prescribed ranks
ObjRes(T, D, lawR, st) ==
    [t |-> "obj", d |-> Desc(T), sh |-> D.sh, re |-> Re(D.v), im |-> Im(D.v),
     ok |-> WFObj(T) /\ Full(T) = D, law |-> Ranks(T) = lawR, status |-> st]
\* result whose ranks the model does not prescribe (only kind, N, M and the value)
ValRes(k, M, N, D, st) ==
    [t |-> "val", d |-> [k |-> k, N |-> N, M |-> M], sh |-> D.sh, re |-> Re(D.v), im |-> Im(D.v),
     ok |-> TRUE, law |-> TRUE, status |-> st]
NumRes(z, st) == [t |-> "num", re |-> z[1], im |-> z[2], ok |-> TRUE, law |-> TRUE, status |-> st]
DenseRes(D, st) == [t |-> "dense", sh |-> D.sh, re |-> Re(D.v), im |-> Im(D.v),
                    ok |-> TRUE, law |-> TRUE, status |-> st]
\* status: "must" = an exception is a violation; "may" = a library exception is
\* acceptable (the documented domain is narrower than torch broadcasting), but a
\* returned result has to be right

G(s) == <<s.re, s.im>>

\* ------------------------------------------------------------ C03: tensors
BinTT(op, x) ==
    /\ op \in OPS /\ x.k = "tt"
    /\ \E y0 \in TS :
        /\ y0.cx = x.cx
        /\ Broadcastable(y0.I, x.I)
        /\ LET y == Second(y0)  X == Mk(x)  Y == Mk(y)  DX == Full(X)  DY == Full(Y)
               ry == RanksBroadcast(y.R, Len(x.I)) IN
           /\ case' = [op |-> op, x |-> x, y |-> y]
           /\ res' = CASE op = "add" -> ObjRes(TAdd(X, Y), DAdd(DX, DY), RanksAdd(x.R, ry), "must")
                       [] op = "sub" -> ObjRes(TSub(X, Y), DSub(DX, DY), RanksAdd(x.R, ry), "must")
                       [] op = "mul" -> ObjRes(TMul(X, Y), DMul(DX, DY), RanksMul(x.R, ry), "must")

\* the *first* operand needs broadcasting (it is shorter, or has a size-1 mode
\* facing a larger one): torch would broadcast; the library documents only the
\* other direction -> "may"
BinTTRev(op, x) ==
    /\ op \in OPS /\ x.k = "tt"
    /\ \E y0 \in TS :
        /\ y0.cx = x.cx /\ x.I # y0.I
        /\ ~Broadcastable(y0.I, x.I)
        /\ Broadcastable(x.I, y0.I)
        /\ LET y == Second(y0)  DX == DBroadcast(Full(Mk(x)), y.I)  DY == Full(Mk(y)) IN
           /\ case' = [op |-> op, x |-> x, y |-> y]
           /\ res' = CASE op = "add_rev" -> ValRes("tt", <<>>, y.I, DAdd(DX, DY), "may")
                       [] op = "sub_rev" -> ValRes("tt", <<>>, y.I, DSub(DX, DY), "may")
                       [] op = "mul_rev" -> ValRes("tt", <<>>, y.I, DMul(DX, DY), "may")

Unary(op, x) ==
    /\ op \in OPS
    /\ LET X == Mk(x)  DX == Full(X)  d == Len(x.I) IN
        /\ case' = [op |-> op, x |-> x]
        /\ CASE op = "neg"   -> res' = ObjRes(TNeg(X), DNeg(DX), x.R, "must")
             [] op \in {"pos", "clone", "kron_none"} -> res' = ObjRes(X, DX, x.R, "must")
             [] op = "conj"  -> res' = ObjRes(TConj(X), DConj(DX), x.R, "must")
             [] op = "full"  -> res' = DenseRes(DX, "must")
             [] op = "t"     -> x.k = "ttm" /\ res' = ObjRes(TTranspose(X), DTranspose(DX, d), x.R, "must")
             [] op = "to_ttm" ->
                  x.k = "tt" /\ res' = ObjRes(TToTTM(X), [sh |-> x.I \o Ones(d), v |-> DX.v], x.R, "must")
             [] op = "diag_embed" ->
                  x.k = "tt" /\ res' = ObjRes(TDiagEmbed(X),
                       DenseOf(x.I \o x.I, LAMBDA ix :
                          IF SubSeq(ix, 1, d) = SubSeq(ix, d + 1, 2*d) THEN At(DX, SubSeq(ix, 1, d)) ELSE GZero),
                       x.R, "must")
             [] op = "diag_extract" ->
                  x.k = "ttm"
                  /\ LET mn == [p \in 1..Len(x.I) |-> IF x.I[p] <= x.J[p] THEN x.I[p] ELSE x.J[p]] IN
                     res' = ObjRes(TDiagExtract(X), DenseOf(mn, LAMBDA ix : At(DX, ix \o ix)), x.R, "must")

\* scalar operations; the scalar-kind table (status) is part of the specification:
\*   python int/float/bool, numpy float64, python zero : must work from either side
\*   0-d and 1-element torch tensors                   : must work (the docstrings name them)
\*   numpy float32 / int64                             : x*s, s*x, x/s may raise (not int/float instances)
\*   complex scalar with real cores                    : not enumerated (dtype cannot be preserved)
ScalarStatus(op, s) ==
    IF s.kind \in {"npf32", "npi64"} /\ op \in {"mul_s", "div_s", "rmul_s"} THEN "may" ELSE "must"

ScalarOp(op, x) ==
    /\ op \in OPS
    /\ \E s \in SC :
        /\ (s.im # 0 => x.cx)
        \* a scalar that float32 cannot hold (2^24+1): only for +/-, where the exact result still fits TLC's integers
        /\ (s.kind = "intbig" => op \in {"add_s", "radd_s", "sub_s", "rsub_s"})
        /\ (op = "div_s" => (s.im = 0 /\ s.re \in {-4, -2, -1, 1, 2, 4}))    \* exact in binary floating point
        \* a scalar of tiny magnitude, re * 2^-100 (a power-of-two scaling is exact in binary floating point; the harness
        \* multiplies the result by 2^100 before comparing): a non-zero factor is a factor, however small
        /\ (s.kind = "tiny" => op \in {"mul_s", "rmul_s"})
        /\ LET X == Mk(x)  DX == Full(X)  c == G(s)  st == ScalarStatus(op, s)
               r1 == [p \in 1..Len(x.R) |-> IF p = 1 \/ p = Len(x.R) THEN 1 ELSE x.R[p] + 1]
               rz == [p \in 1..Len(x.R) |-> 1] IN
           /\ case' = [op |-> op, x |-> x, s |-> s]
           /\ res' = CASE op \in {"add_s", "radd_s"} -> ObjRes(TAddScalar(X, c), DAddScalar(DX, c), r1, st)
                       [] op = "sub_s"  -> ObjRes(TAddScalar(X, GNeg(c)), DAddScalar(DX, GNeg(c)), r1, st)
                       [] op = "rsub_s" -> ObjRes(TNeg(TAddScalar(X, GNeg(c))), DRSubScalar(DX, c), r1, st)
                       [] op \in {"mul_s", "rmul_s"} ->
                             IF c = GZero THEN ObjRes(TConstLike(X, GZero), DScale(DX, c), rz, st)
                             ELSE ObjRes(TScale(X, c), DScale(DX, c), x.R, st)
                       \* x / s : the harness multiplies the implementation's result by s
                       \* (exact in binary floating point for the s used) and compares with x
                       [] op = "div_s"  -> ObjRes(X, DX, x.R, st)

KronOp(x) ==
    /\ "kron" \in OPS
    /\ \E y0 \in TS \cup MS :
        /\ x.k = y0.k /\ x.cx = y0.cx
        /\ Len(x.I) + Len(y0.I) <= 4
        /\ Prod(x.I) * Prod(x.J) * Prod(y0.I) * Prod(y0.J) <= (IF x.k = "tt" THEN 144 ELSE 36)
        /\ LET y == Second(y0)  X == Mk(x)  Y == Mk(y) IN
           /\ case' = [op |-> "kron", x |-> x, y |-> y]
           /\ res' = ObjRes(TKron(X, Y),
                            IF x.k = "tt" THEN DKronT(Full(X), Full(Y))
                            ELSE DKronM(Full(X), Len(x.I), Full(Y), Len(y.I)),
                            SubSeq(x.R, 1, Len(x.R) - 1) \o y.R, "must")

\* ----------------------------------------------------------- C04: operators
BinMM(op, x) ==
    /\ op \in OPS /\ x.k = "ttm"
    /\ \E y0 \in MS :
        /\ y0.cx = x.cx /\ x.I = y0.I /\ x.J = y0.J
        /\ LET y == Second(y0)  X == Mk(x)  Y == Mk(y)  DX == Full(X)  DY == Full(Y) IN
           /\ case' = [op |-> op, x |-> x, y |-> y]
           /\ res' = CASE op = "add" -> ObjRes(TAddSame(X, Y), DMap2(GAdd, DX, DY), RanksAdd(x.R, y.R), "must")
                       [] op = "sub" -> ObjRes(TAddSame(X, TNeg(Y)), DMap2(GSub, DX, DY), RanksAdd(x.R, y.R), "must")
                       [] op = "mul" -> ObjRes(TMulSame(X, Y), DMap2(GMul, DX, DY), RanksMul(x.R, y.R), "must")
MatVec(A) ==
    /\ "matvec" \in OPS /\ A.k = "ttm"
    /\ \E x0 \in TS :
        /\ A.cx = x0.cx /\ A.J = x0.I
        /\ LET x == Second(x0)  TA == Mk(A)  TX == Mk(x) IN
           /\ case' = [op |-> "matvec", x |-> A, y |-> x]
           /\ res' = ObjRes(TMatVec(TA, TX), DMatVec(Full(TA), Len(A.I), Full(TX)), RanksMul(A.R, x.R), "must")
VecMat(x) ==
    /\ "vecmat" \in OPS /\ x.k = "tt"
    /\ \E A0 \in MS :
        /\ A0.cx = x.cx /\ A0.I = x.I
        /\ LET A == Second(A0)  TA == Mk(A)  TX == Mk(x) IN
           /\ case' = [op |-> "vecmat", x |-> x, y |-> A]
           /\ res' = ObjRes(TVecMat(TX, TA), DVecMat(Full(TX), Full(TA), Len(A.I)), RanksMul(A.R, x.R), "must")
MatMat(A) ==
    /\ "matmat" \in OPS /\ A.k = "ttm"
    /\ \E B0 \in MS :
        /\ A.cx = B0.cx /\ A.J = B0.I
        /\ LET B == Second(B0)  TA == Mk(A)  TB == Mk(B) IN
           /\ case' = [op |-> "matmat", x |-> A, y |-> B]
           /\ res' = ObjRes(TMatMat(TA, TB, "ttm"), DMatMat(Full(TA), Full(TB), Len(A.I)), RanksMul(A.R, B.R), "must")
\* A @ dense array with leading batch modes; the array has the canonical dense fill
DenseFill(sh, f, cx) ==
    DenseOf(sh, LAMBDA ix : <<FillRe(f, Len(ix), 1, Flat(ix, sh) + 1, 1, 1),
                              IF cx THEN FillIm(f, Len(ix), 1, Flat(ix, sh) + 1, 1, 1) ELSE 0>>)
MatDense(A) ==
    /\ "matdense" \in OPS /\ A.k = "ttm"
    /\ \E bsh \in BATCH :
        LET TA == Mk(A)  X == DenseFill(bsh \o A.J, A.f + 1, A.cx) IN
        /\ case' = [op |-> "matdense", x |-> A, bsh |-> bsh, f |-> A.f + 1]
        /\ res' = DenseRes(DMatDense(Full(TA), Len(A.I), X), "must")

\* ------------------------------------------------ factories (C03 statement)
VecFill(n, f, cx) == DenseFill(<<n>>, f, cx)
Factory(op, x) ==
    /\ op \in OPS
    /\ LET d == Len(x.I)  one == [p \in 1..(d + 1) |-> 1] IN
       /\ case' = [op |-> op, x |-> x]
       /\ CASE op = "ones"  -> res' = ValRes(x.k, IF x.k = "tt" THEN <<>> ELSE x.I, IF x.k = "tt" THEN x.I ELSE x.J,
                                             DConst(IF x.k = "tt" THEN x.I ELSE x.I \o x.J, GOne), "must") @@ [R |-> one]
            [] op = "zeros" -> res' = ValRes(x.k, IF x.k = "tt" THEN <<>> ELSE x.I, IF x.k = "tt" THEN x.I ELSE x.J,
                                             DConst(IF x.k = "tt" THEN x.I ELSE x.I \o x.J, GZero), "must") @@ [R |-> one]
            [] op = "eye"   -> x.k = "tt" /\ res' = ValRes("ttm", x.I, x.I,
                                  DenseOf(x.I \o x.I, LAMBDA ix : IF SubSeq(ix, 1, d) = SubSeq(ix, d + 1, 2*d) THEN GOne ELSE GZero),
                                  "must") @@ [R |-> one]
            [] op = "rank1" -> x.k = "tt" /\ res' = ValRes("tt", <<>>, x.I,
                                  DenseOf(x.I, LAMBDA ix : FoldLeft(GMul, GOne, [p \in 1..d |-> At(VecFill(x.I[p], x.f + p, x.cx), <<ix[p]>>)])),
                                  "must") @@ [R |-> one]
Meshgrid(x) ==
    /\ "meshgrid" \in OPS /\ x.k = "tt"
    /\ \E q \in 1..Len(x.I) :
        /\ case' = [op |-> "meshgrid", x |-> x, q |-> q]
        /\ res' = ValRes("tt", <<>>, x.I, DenseOf(x.I, LAMBDA ix : At(VecFill(x.I[q], x.f + q, x.cx), <<ix[q]>>)), "must")
                  @@ [R |-> [p \in 1..(Len(x.I) + 1) |-> 1]]

\* the uniform-grid idiom meshgrid([v] * d): one vector object at every position (all modes of the same size)
MeshgridSame(x) ==
    /\ "meshgrid" \in OPS /\ x.k = "tt" /\ Len(x.I) >= 2 /\ \A p \in 1..Len(x.I) : x.I[p] = x.I[1]
    /\ \E q \in 1..Len(x.I) :
        /\ case' = [op |-> "meshgrid_same", x |-> x, q |-> q]
        /\ res' = ValRes("tt", <<>>, x.I, DenseOf(x.I, LAMBDA ix : At(VecFill(x.I[1], x.f + 1, x.cx), <<ix[q]>>)), "must")
                  @@ [R |-> [p \in 1..(Len(x.I) + 1) |-> 1]]

\* ---------------------------------------------------------------------- C07
SubsetsSeq(d) == {SetToSortSeq(S, <) : S \in (SUBSET (1..d)) \ {{}}}
Reductions(op, x) ==
    /\ op \in OPS
    /\ LET X == Mk(x)  DX == Full(X)  d == Len(x.I) IN
       CASE op \in {"norm2", "norm"} ->     \* "norm": the harness compares with the square root of this integer
              /\ case' = [op |-> op, x |-> x]
              /\ res' = NumRes(<<DNorm2(DX), 0>>, "must")
         [] op = "sum_all" ->
              /\ case' = [op |-> op, x |-> x]
              /\ res' = NumRes(DSumAll(DX), "must")
         [] op = "sum_axes" ->
              \E axes \in SubsetsSeq(d) :
                 /\ case' = [op |-> op, x |-> x, axes |-> axes]
                 /\ res' = IF Len(axes) = d THEN NumRes(DSumAll(DX), "must")
                           ELSE LET rest == Complement(d, axes) IN
                                IF x.k = "tt" THEN ValRes("tt", <<>>, SelectSeq2(x.I, rest), DSumAxes(DX, axes), "must")
                                ELSE ValRes("ttm", SelectSeq2(x.I, rest), SelectSeq2(x.J, rest), DSumAxesM(DX, d, axes), "must")
Dot(x) ==
    /\ "dot" \in OPS /\ x.k = "tt"
    /\ \E y0 \in TS :
        /\ y0.cx = x.cx /\ y0.I = x.I
        /\ LET y == Second(y0) IN
           /\ case' = [op |-> "dot", x |-> x, y |-> y]
           /\ res' = NumRes(DDot(Full(Mk(x)), Full(Mk(y))), "must")
DotAxes(x) ==
    /\ "dot_axes" \in OPS /\ x.k = "tt"
    /\ \E y0 \in TS, axes \in SubsetsSeq(Len(x.I)) :
        /\ y0.cx = x.cx /\ y0.I = SelectSeq2(x.I, axes)
        /\ LET y == Second(y0)  DX == Full(Mk(x))  DY == Full(Mk(y))  d == Len(x.I) IN
           /\ case' = [op |-> "dot_axes", x |-> x, y |-> y, axes |-> axes]
           /\ res' = IF Len(axes) = d THEN NumRes(DDot(DX, DY), "must")
                     ELSE ValRes("tt", <<>>, SelectSeq2(x.I, Complement(d, axes)), DDotAxes(DX, DY, axes), "must")
Bilinear(A) ==
    /\ "bilinear" \in OPS /\ A.k = "ttm"
    /\ \E x0 \in TS, y0 \in TS :
        /\ x0.cx = A.cx /\ y0.cx = A.cx /\ x0.I = A.I /\ y0.I = A.J
        /\ LET x == Second(x0)  y == Second(Second(y0)) IN
           /\ case' = [op |-> "bilinear", x |-> A, y |-> x, z |-> y]
           /\ res' = NumRes(DBilinear(Full(Mk(x)), Full(Mk(A)), Len(A.I), Full(Mk(y))), "must")

\* ---------------------------------------------------------------------- C08
NoneItem == [t |-> "n"]
EllItem == [t |-> "e"]
RECURSIVE BaseExprs(_, _, _)
BaseExprs(sh, p, d) ==        \* all item sequences for modes p..Len(sh)
    IF p > Len(sh) THEN {<<>>}
    ELSE {<<it>> \o rest : it \in ITEMS(sh[p], d), rest \in BaseExprs(sh, p + 1, d)}
InsAfter(e, q, it) == SubSeq(e, 1, q) \o <<it>> \o SubSeq(e, q + 1, Len(e))
IndexExprs(sh) ==
    LET d == Len(sh)  B == BaseExprs(sh, 1, d) IN
    B \cup {InsAfter(e, q, NoneItem) : e \in B, q \in 0..d}
      \cup UNION {{<<EllItem>> \o SubSeq(e, k + 1, d), SubSeq(e, 1, d - k) \o <<EllItem>>,
                   <<EllItem>> \o SubSeq(e, k + 1, d) \o <<NoneItem>>, <<NoneItem>> \o SubSeq(e, 1, d - k) \o <<EllItem>>} : e \in B, k \in 0..d}
      \cup {SubSeq(e, 1, k) : e \in B, k \in 1..(d - 1)}          \* short tuples (trailing modes implied)
HasEll(e) == \E p \in 1..Len(e) : e[p].t = "e"
HasNone(e) == \E p \in 1..Len(e) : e[p].t = "n"
IndexT(x) ==
    /\ "index" \in OPS /\ x.k = "tt"
    /\ \E e \in IndexExprs(x.I) :
        /\ ValidIndex(e, x.I)
        /\ LET DX == Full(Mk(x))  D == DIndex(DX, e)
               st == IF NConsumers(e) = Len(x.I) \/ HasEll(e) THEN "must" ELSE "may" IN
           /\ case' = [op |-> "index", x |-> x, e |-> e]
           /\ res' = IF AllInts(e, Len(x.I)) THEN NumRes(D.v[1], st) ELSE ValRes("tt", <<>>, D.sh, D, st)
\* operators: row items then column items, pairwise of the same kind
PairExprs(M, N) ==
    LET d == Len(M)  dd == IF d >= 3 THEN 2 * d ELSE d IN      \* order >= 3: ITEMS is asked for the order of the pair (the rich set would give 16^6 pairs)
    {re \o ce : re \in BaseExprs(M, 1, dd), ce \in BaseExprs(N, 1, dd)}
IndexM(A) ==
    /\ "index_m" \in OPS /\ A.k = "ttm"
    /\ \E e \in PairExprs(A.I, A.J) :
        LET d == Len(A.I) IN
        /\ \A p \in 1..d : e[p].t = e[d + p].t
        /\ ValidIndex(e, A.I \o A.J)
        /\ LET D == DIndex(Full(Mk(A)), e)
               keep == {p \in 1..d : e[p].t = "s"}
               ks == SetToSortSeq(keep, <) IN
           /\ case' = [op |-> "index_m", x |-> A, e |-> e]
           /\ res' = IF keep = {} THEN NumRes(D.v[1], "must")
                     ELSE ValRes("ttm", SubSeq(D.sh, 1, Len(ks)), SubSeq(D.sh, Len(ks) + 1, 2*Len(ks)), D, "must")
\* operators: a None pair (row and column position alike) inserts a (1,1) mode
IndexMNone(A) ==
    /\ "index_m" \in OPS /\ A.k = "ttm" /\ Len(A.I) <= 2
    /\ \E re \in BaseExprs(A.I, 1, 4), ce \in BaseExprs(A.J, 1, 4), q \in 0..Len(A.I) :
        LET d == Len(A.I)
            e == InsAfter(re, q, NoneItem) \o InsAfter(ce, q, NoneItem)
            plain == re \o ce IN
        /\ \A p \in 1..d : re[p].t = ce[p].t
        /\ ValidIndex(plain, A.I \o A.J)
        /\ LET D == DIndex(Full(Mk(A)), e)
               nk == Cardinality({p \in 1..d : re[p].t = "s"}) + 1 IN
           /\ case' = [op |-> "index_m", x |-> A, e |-> e]
           /\ res' = ValRes("ttm", SubSeq(D.sh, 1, nk), SubSeq(D.sh, nk + 1, 2 * nk), D, "must")
MaskRows(sh, K, f) == [k \in 1..K |-> [p \in 1..Len(sh) |-> ((k*7 + p*3 + f + k*p) % sh[p]) + 1]]   \* 1-based
ApplyMask(x) ==
    /\ "apply_mask" \in OPS /\ x.k = "tt"
    /\ \E K \in {1, 2, 5} :
        LET rows == MaskRows(x.I, K, x.f)  DX == Full(Mk(x)) IN
        /\ case' = [op |-> "apply_mask", x |-> x, rows |-> rows]
        /\ res' = DenseRes([sh |-> <<K>>, v |-> [k \in 1..K |-> At(DX, rows[k])]], "must")

\* ---------------------------------------------------------------------- C09
Cat(x) ==
    /\ "cat" \in OPS /\ x.k = "tt"
    /\ \E y0 \in TS, ax \in 1..Len(x.I) :
        /\ y0.cx = x.cx /\ Len(y0.I) = Len(x.I)
        /\ \A p \in 1..Len(x.I) : p # ax => y0.I[p] = x.I[p]
        /\ LET y == Second(y0)  X == Mk(x)  Y == Mk(y) IN
           /\ case' = [op |-> "cat", x |-> x, y |-> y, ax |-> ax]
           /\ res' = ObjRes(TCat2(X, Y, ax), DCat2(Full(X), Full(Y), ax), RanksAdd(x.R, y.R), "must")
Cat3(x) ==      \* three operands: x, a second one, and a third of x's own structure with another fill
    /\ "cat3" \in OPS /\ x.k = "tt"
    /\ \E y0 \in TS, ax \in 1..Len(x.I) :
        /\ y0.cx = x.cx /\ Len(y0.I) = Len(x.I)
        /\ \A p \in 1..Len(x.I) : p # ax => y0.I[p] = x.I[p]
        /\ LET y == Second(y0)  z == Second(Second(x))  X == Mk(x)  Y == Mk(y)  Z == Mk(z)
               XY == TCat2(X, Y, ax) IN
           /\ case' = [op |-> "cat3", x |-> x, y |-> y, z |-> z, ax |-> ax]
           /\ res' = ObjRes(TCat2(XY, Z, ax), DCat2(DCat2(Full(X), Full(Y), ax), Full(Z), ax),
                            RanksAdd(RanksAdd(x.R, y.R), z.R), "must")
WidthSeqs(k) == SeqsOf(WIDTHS, k)
PadT(x) ==
    /\ "pad" \in OPS /\ x.k = "tt"
    /\ \E k \in 1..Len(x.I) : \E w \in WidthSeqs(k), val \in {0, 3, -2} :
        LET DX == Full(Mk(x)) IN
        /\ case' = [op |-> "pad", x |-> x, w |-> w, val |-> val]
        /\ res' = ValRes("tt", <<>>, DPadT(DX, w, <<val, 0>>).sh, DPadT(DX, w, <<val, 0>>), "must")
                  @@ [tol |-> IF val = 0 THEN "exact" ELSE "roundoff"]
PadM(A) ==
    /\ "pad_m" \in OPS /\ A.k = "ttm"
    \* paddings for the trailing k modes; the leading d - k modes are not padded (width <<0, 0>>): their diagonal blocks are empty,
    \* so with k < d the result is the zero embedding of A whatever the value
    /\ \E k \in 1..Len(A.I) : \E w0 \in WidthSeqs(k), val \in {0, 3, -2} :
        LET d == Len(A.I)  w == [p \in 1..(d - k) |-> <<0, 0>>] \o w0
            D == DPadM(Full(Mk(A)), d, w, <<val, 0>>) IN
        /\ case' = [op |-> "pad_m", x |-> A, w |-> w0, val |-> val]
        /\ res' = ValRes("ttm", SubSeq(D.sh, 1, d), SubSeq(D.sh, d + 1, 2*d), D, "must") @@ [tol |-> "exact"]
\* mode products: factor matrix for mode p has shape <<(N[p] % 3) + 1, N[p]>> and the canonical dense fill
MatFor(x, p) == DenseFill(<<(x.I[p] % 3) + 1, x.I[p]>>, x.f + p + 1, x.cx)
RECURSIVE MProdSeq(_, _, _, _)
MProdSeq(D, x, modes, q) == IF q > Len(modes) THEN D ELSE MProdSeq(DMProd1(D, MatFor(x, modes[q]), modes[q]), x, modes, q + 1)
MProd(x) ==
    /\ "mprod" \in OPS /\ x.k = "tt"
    /\ \E modes \in SubsetsSeq(Len(x.I)), aslist \in BOOLEAN :
        /\ (~aslist => Len(modes) = 1)
        /\ LET D == MProdSeq(Full(Mk(x)), x, modes, 1) IN
           /\ case' = [op |-> "mprod", x |-> x, modes |-> modes, aslist |-> aslist]
           /\ res' = ValRes("tt", <<>>, D.sh, D, "must") @@ [R |-> x.R]

\* ---------------------------------------------------------------------- C19
\* copies and round trips: the expected outcome is the identity on the projected state.
\* origin = how the harness obtains the object: "cores" (constructor from cores), "tview" (transpose of the
\* transpose: permuted, non-contiguous core views), "slice2" (x[::2, :, ...]: strided core views), "svd"
\* (TT-SVD of the dense array: rank list holds numpy integers; values only up to roundoff), "neg" (-x: the zero
\* entries of the fill become negative zeros, which a bit-exact round trip has to preserve)
Copies(op, x) ==
    /\ op \in OPS
    /\ \E origin \in {"cores", "tview", "slice2", "svd", "neg", "conj"} :      \* conj: x.conj() of a complex object (lazily conjugated core views)
        /\ (origin = "conj" => x.cx)
        /\ (origin = "tview" => x.k = "ttm")
        /\ (origin = "slice2" => x.k = "tt" /\ x.I[1] >= 2)
        /\ LET X == Mk(x)  DX == Full(X)
               e == <<[t |-> "s", lo |-> NONE, hi |-> NONE, st |-> 2]>>
               D == IF origin = "slice2" THEN DIndex(DX, e) ELSE IF origin = "neg" THEN DNeg(DX) ELSE IF origin = "conj" THEN DConj(DX) ELSE DX
               N == IF x.k = "tt" THEN D.sh ELSE x.J IN
           /\ case' = [op |-> op, x |-> x, origin |-> origin]
           /\ res' = IF op = "numpy" THEN DenseRes(D, "must") @@ [tol |-> IF origin = "svd" THEN "roundoff" ELSE "exact"]
                     ELSE ValRes(x.k, IF x.k = "tt" THEN <<>> ELSE x.I, N, D, "must")
                          @@ [tol |-> IF origin = "svd" THEN "roundoff" ELSE "exact"]

\* ---------------------------------------------------------------------- C20
\* LinearLayerTT(size_in = A.J, size_out = A.I, rank = A.R): forward(x) = W x + b for x with leading batch modes
LayerForward(A) ==
    /\ "layer" \in OPS /\ A.k = "ttm"
    /\ \E bsh \in BATCH :
        LET d == Len(A.I)  W == Full(Mk(A))
            X == DenseFill(bsh \o A.J, A.f + 1, A.cx)
            B == DenseFill(A.I, A.f + 2, A.cx)
            Y == DMatDense(W, d, X)
            nb == Len(bsh)
            out == DenseOf(Y.sh, LAMBDA ix : GAdd(At(Y, ix), At(B, SubSeq(ix, nb + 1, nb + d)))) IN
        /\ case' = [op |-> "layer", x |-> A, bsh |-> bsh]
        /\ res' = DenseRes(out, "must")
\* the same mode twice in the list: the factors are applied one after the other (a square one, then a rectangular one)
MProdRep(x) ==
    /\ "mprod" \in OPS /\ x.k = "tt"
    /\ \E p \in 1..Len(x.I) :
        LET n == x.I[p]
            Q1 == DenseFill(<<n, n>>, x.f + 20, x.cx)
            Q2 == DenseFill(<<(n % 3) + 1, n>>, x.f + 21, x.cx)
            D == DMProd1(DMProd1(Full(Mk(x)), Q1, p), Q2, p) IN
        /\ case' = [op |-> "mprod_rep", x |-> x, p |-> p]
        /\ res' = ValRes("tt", <<>>, D.sh, D, "must") @@ [R |-> x.R]

AlgNext(x) ==
    \/ \E op \in {"add", "sub", "mul"} : BinTT(op, x) \/ BinMM(op, x)
    \/ \E op \in {"add_rev", "sub_rev", "mul_rev"} : BinTTRev(op, x)
    \/ \E op \in {"neg", "pos", "conj", "full", "clone", "kron_none", "to_ttm", "diag_embed", "t", "diag_extract"} :
          Unary(op, x)
    \/ \E op \in {"add_s", "radd_s", "sub_s", "rsub_s", "mul_s", "rmul_s", "div_s"} : ScalarOp(op, x)
    \/ KronOp(x)
    \/ MatVec(x) \/ VecMat(x) \/ MatMat(x) \/ MatDense(x)
    \/ \E op \in {"ones", "zeros", "eye", "rank1"} : Factory(op, x)
    \/ Meshgrid(x) \/ MeshgridSame(x)
    \/ \E op \in {"norm2", "norm", "sum_all", "sum_axes"} : Reductions(op, x)
    \/ Dot(x) \/ DotAxes(x) \/ Bilinear(x)
    \/ IndexT(x) \/ IndexM(x) \/ IndexMNone(x) \/ ApplyMask(x)
    \/ Cat(x) \/ Cat3(x) \/ PadT(x) \/ PadM(x) \/ MProd(x) \/ MProdRep(x)
    \/ \E op \in {"save_load", "clone_c", "detach", "to_dtype", "to_both", "to_pos", "to_device", "to_none", "cpu", "numpy"} : Copies(op, x)
    \/ LayerForward(x)

Next == Fresh /\ AlgNext(case.x)

Spec == Init /\ [][Next]_vars

DesignOK  == res.ok
RankLawOK == res.law
=============================================================================
