------------------------------- MODULE MC_C04 -------------------------------
EXTENDS Alg
\* operators of order 1-2 over all rectangular mode sizes (M_i, N_i) in {1,2,3}^2, interior ranks {1,2}
\* (thorough: {1,2,3}), plus canonical order-3/4 operators whose row, column and inner sizes and ranks
\* are pairwise distinct; vectors of every matching shape.
Sizes == {1, 2, 3}
Pairs(d) == SeqsOf(Sizes, d) \X SeqsOf(Sizes, d)
SmallM(RS, FS) == UNION { UNION { {StM(mn[1], mn[2], R, f, cx) : R \in RankProfiles(d, RS), cx \in BOOLEAN, f \in FS} : mn \in Pairs(d) } : d \in 1..2 }
CanonM(FS) == UNION { { StM(<<2, 3, 2>>, <<3, 1, 2>>, <<1, 2, 3, 1>>, f, cx),
                        StM(<<3, 1, 2>>, <<2, 2, 3>>, <<1, 3, 2, 1>>, f, cx),   \* composable with the previous one
                        StM(<<2, 2, 3>>, <<1, 3, 2>>, <<1, 2, 2, 1>>, f, cx),
                        StM(<<2, 1, 2, 2>>, <<1, 3, 2, 1>>, <<1, 2, 3, 2, 1>>, f, cx),
                        StM(<<1, 3, 2, 1>>, <<2, 2, 1, 2>>, <<1, 2, 1, 3, 1>>, f, cx),
                        StM(<<4, 2>>, <<3, 5>>, <<1, 3, 1>>, f, cx), StM(<<3, 5>>, <<2, 4>>, <<1, 2, 1>>, f, cx) } : f \in FS, cx \in BOOLEAN }
SmallT(RS, FS) == UNION { UNION { {StT(N, R, f, cx) : R \in RankProfiles(d, RS), cx \in BOOLEAN, f \in FS} : N \in SeqsOf(Sizes, d) } : d \in 1..2 }
CanonT(FS) == UNION { { StT(<<3, 1, 2>>, <<1, 2, 3, 1>>, f, cx), StT(<<2, 3, 2>>, <<1, 3, 2, 1>>, f, cx),
                        StT(<<2, 2, 3>>, <<1, 2, 2, 1>>, f, cx), StT(<<1, 3, 2>>, <<1, 2, 3, 1>>, f, cx),
                        StT(<<1, 3, 2, 1>>, <<1, 2, 3, 2, 1>>, f, cx), StT(<<2, 1, 2, 2>>, <<1, 3, 1, 2, 1>>, f, cx),
                        StT(<<2, 2, 1, 2>>, <<1, 2, 2, 2, 1>>, f, cx), StT(<<3, 5>>, <<1, 2, 1>>, f, cx),
                        StT(<<4, 2>>, <<1, 3, 1>>, f, cx), StT(<<2, 4>>, <<1, 2, 1>>, f, cx) } : f \in FS, cx \in BOOLEAN }
Q_MS == SmallM({1, 2}, {1}) \cup CanonM({1})
Q_TS == SmallT({1, 2}, {1}) \cup CanonT({1})
T_MS == SmallM({1, 2, 3}, {1, 4}) \cup CanonM({1, 4})
T_TS == SmallT({1, 2, 3}, {1, 4}) \cup CanonT({1, 4})
MC_SC == { [kind |-> "int", re |-> 2, im |-> 0], [kind |-> "float", re |-> -3, im |-> 0],
           [kind |-> "t0d", re |-> 2, im |-> 0], [kind |-> "int", re |-> 0, im |-> 0],
           [kind |-> "complex", re |-> 1, im |-> 2],
           [kind |-> "intbig", re |-> 16777217, im |-> 0], [kind |-> "tiny", re |-> 3, im |-> 0] }
MC_OPS == {"add", "sub", "mul", "neg", "pos", "full", "t", "matvec", "vecmat", "matmat", "matdense",
           "add_s", "radd_s", "sub_s", "rsub_s", "mul_s", "rmul_s", "div_s", "kron", "ones", "zeros", "eye"}
MC_BATCH == {<<>>, <<2>>, <<2, 3>>, <<2, 1, 3>>}
MC_ITEMS(n, d) == {}
MC_WIDTHS == {}
=============================================================================
