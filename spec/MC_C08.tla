------------------------------- MODULE MC_C08 -------------------------------
EXTENDS Alg
IntI(v) == [t |-> "i", v |-> v]
Sl(lo, hi, st) == [t |-> "s", lo |-> lo, hi |-> hi, st |-> st]
\* index items tried on a mode of size n: integers at both ends in both notations, and slices that are
\* full, length-1, open on either side, negative-bounded, stepped, over-long; a reduced set for order >= 3
RichItems(n) == {IntI(0), IntI(n - 1), IntI(-1), IntI(0 - n)} \cup
                {Sl(NONE, NONE, 1), Sl(0, 1, 1), Sl(1, NONE, 1), Sl(NONE, -1, 1), Sl(NONE, NONE, 2), Sl(1, NONE, 2),
                 Sl(-2, NONE, 1), Sl(0, n, 1), Sl(-1, NONE, 1), Sl(1, 2, 1), Sl(0, 5, 3), Sl(-3, -1, 1)}
LeanItems(n) == {IntI(0), IntI(-1)} \cup {Sl(NONE, NONE, 1), Sl(0, 1, 1), Sl(1, NONE, 1), Sl(NONE, NONE, 2)}
Q_ITEMS(n, d) == IF d <= 2 THEN RichItems(n) ELSE LeanItems(n)
T_ITEMS(n, d) == IF d <= 3 THEN RichItems(n) ELSE LeanItems(n)
QT(f, cx) == { StT(<<3>>, <<1, 1>>, f, cx), StT(<<1>>, <<1, 1>>, f, cx), StT(<<4>>, <<1, 1>>, f, cx),
               StT(<<2, 3>>, <<1, 2, 1>>, f, cx), StT(<<1, 3>>, <<1, 2, 1>>, f, cx), StT(<<3, 1>>, <<1, 3, 1>>, f, cx),
               StT(<<1, 1>>, <<1, 2, 1>>, f, cx), StT(<<4, 2>>, <<1, 1, 1>>, f, cx),
               StT(<<2, 1, 3>>, <<1, 2, 3, 1>>, f, cx), StT(<<3, 2, 2>>, <<1, 3, 2, 1>>, f, cx), StT(<<1, 2, 1>>, <<1, 1, 2, 1>>, f, cx),
               StT(<<2, 3, 1, 2>>, <<1, 2, 3, 2, 1>>, f, cx) }
Q_TS == QT(1, FALSE) \cup {StT(<<2, 3>>, <<1, 2, 1>>, 1, TRUE), StT(<<2, 1, 3>>, <<1, 2, 3, 1>>, 1, TRUE)}
T_TS == QT(1, FALSE) \cup QT(4, TRUE) \cup { StT(<<3, 4, 2>>, <<1, 2, 2, 1>>, 1, FALSE), StT(<<2, 2, 1, 3, 2>>, <<1, 2, 2, 3, 2, 1>>, 1, FALSE) }
QM(f, cx) == { StM(<<3>>, <<2>>, <<1, 1>>, f, cx), StM(<<1>>, <<3>>, <<1, 1>>, f, cx),
               StM(<<2, 3>>, <<3, 1>>, <<1, 2, 1>>, f, cx), StM(<<1, 2>>, <<2, 2>>, <<1, 3, 1>>, f, cx) }
Q_MS == QM(1, FALSE)
T_MS == QM(1, FALSE) \cup QM(4, TRUE) \cup { StM(<<2, 1, 2>>, <<2, 3, 1>>, <<1, 2, 2, 1>>, 1, FALSE) }
MC_SC == {}
MC_OPS == {"index", "index_m", "apply_mask"}
MC_BATCH == {}
MC_WIDTHS == {}
=============================================================================
