"""Replay of spec/Manifold.tla (property C16): terms over the projector evaluated with the real routines and
compared with their normal form; scalar laws; rank law; riemannian_gradient against the projected dense gradient."""
import math
import numpy as np
import torch

from . import project, algrun
from .g3run import rand_tt, U64

TOL = 1e-9


def setup(tt, S, seed):
    gen = torch.Generator().manual_seed(600 + seed + sum(S["N"]) * 7 + len(S["N"]))
    dt = torch.float64
    N, M, R = [int(v) for v in S["N"]], [int(v) for v in S["M"]], [int(v) for v in S["R"]]
    is_m = S["k"] == "ttm"
    modes = list(zip(M, N)) if is_m else N
    d = len(N)
    cores = []
    for k in range(d):
        sh = [R[k], M[k], N[k], R[k + 1]] if is_m else [R[k], N[k], R[k + 1]]
        cores.append(torch.randn(sh, generator=gen, dtype=dt))
    x = tt.TT(cores)          # generic random cores: exactly the (minimal) ranks R
    z = rand_tt(tt, modes, 3, gen, dt)
    w = rand_tt(tt, modes, 2, gen, dt)
    return x, z, w, modes, gen


def dense(T):
    return project.dense(T.cores)


def handler(st, opts):
    import torchtt as tt
    S, term = st["s"], st["term"]
    op = term["op"]
    if op in ("z", "w", "x", "P", "lin") and st["nf"] == {"z": 0, "w": 0, "x": 0, "pz": 0, "pw": 0} and op not in ("grad_quad",):
        # the undecided initial state of a term: skip (its successor carries the normal form) - except the all-zero NF
        if not (op == "lin" and False):
            pass
    seed = opts.get("seed", 0)
    problems, stats = [], {"behaviours": 1, "calls": 0}
    key = {"op": "manifold", "kind": S["k"], "d": len(S["N"]), "term": op}

    def P(cls, msg, prop="C16"):
        kk = dict(key); kk["cls"] = cls
        return {"prop": prop, "cls": cls, "op": "manifold", "key": kk, "msg": "base point %s N=%s R=%s, %s: %s" % (S["k"], list(S["N"]), list(S["R"]), op, msg),
                "replay": {"engine": "vf.g3manifold", "state": st}}
    x, z, w, modes, gen = setup(tt, S, seed)
    Rx = [int(r) for r in x.R]
    proj = tt.manifold.riemannian_projection
    objs = [x, z, w]
    snap = algrun.snapshot(objs)
    scale = max(1.0, torch.linalg.norm(dense(z)).item(), torch.linalg.norm(dense(w)).item(), torch.linalg.norm(dense(x)).item())
    try:
        if op in ("z", "w", "x", "P", "lin"):
            if "nf" not in st or (st["nf"] == {"z": 0, "w": 0, "x": 0, "pz": 0, "pw": 0}):
                return None          # initial (undecided) state
            atoms = {"z": dense(z), "w": dense(w), "x": dense(x)}
            Pz, Pw = proj(x, z), proj(x, w)
            stats["calls"] += 2
            atoms["pz"], atoms["pw"] = dense(Pz), dense(Pw)
            for nm, T in (("P z", Pz), ("P w", Pw)):
                if any(int(a) > 2 * b for a, b in zip(T.R, Rx)):
                    problems.append(P("rank", "%s has ranks %s > 2 * %s" % (nm, list(T.R), Rx)))

            def ev(t):
                if t["op"] in ("z", "w", "x"):
                    return {"z": z, "w": w, "x": x}[t["op"]]
                if t["op"] == "P":
                    stats["calls"] += 1
                    return proj(x, ev(t["a"]))
                return t["ca"] * ev(t["a"]) + t["cb"] * ev(t["b"])
            got = dense(ev(term))
            nf = st["nf"]
            ref = sum(float(nf[k]) * atoms[k] for k in ("z", "w", "x", "pz", "pw"))
            csum = max(1.0, sum(abs(nf[k]) for k in nf))
            err = torch.linalg.norm(got - ref).item()
            if err > TOL * scale * csum:
                problems.append(P("law", "term differs from its normal form %s by %.3g (scale %.3g): the projector is not linear / idempotent / does not fix x" % (nf, err, scale)))
            stats["nontrivial"] = 1 if op in ("P", "lin") else 0
        elif op == "scalar_laws":
            Pz, Pw = proj(x, z), proj(x, w)
            stats["calls"] += 2
            zd, wd, pz, pw = dense(z), dense(w), dense(Pz), dense(Pw)
            a = torch.sum(pz * wd).item(); b = torch.sum(zd * pw).item()
            if abs(a - b) > TOL * scale * scale:
                problems.append(P("self-adjoint", "<P z, w> = %.12g but <z, P w> = %.12g" % (a, b)))
            c = torch.sum((zd - pz) * pw).item()
            if abs(c) > TOL * scale * scale:
                problems.append(P("orthogonal", "<z - P z, P w> = %.3g, not 0" % c))
            px = dense(proj(x, x))
            if torch.linalg.norm(px - dense(x)).item() > TOL * scale:
                problems.append(P("fixes-x", "P x differs from x by %.3g" % torch.linalg.norm(px - dense(x)).item()))
            stats["nontrivial"] = 1
        else:
            # riemannian_gradient(x, f) = P(grad f(x)) with the dense Euclidean gradient
            t_d = dense(z); c_d = dense(w); xd = dense(x)
            if op == "grad_quad":
                f = lambda X: 0.5 * ((X - z).norm(True) if False else ((X - z) * (X - z)).sum())
                g = xd - t_d
            elif op == "grad_lin":
                f = lambda X: (X * w).sum()
                g = c_d
            else:
                f = lambda X: 0.25 * (X * X * X * X).sum()
                g = xd ** 3
            G = tt.manifold.riemannian_gradient(x, f)
            stats["calls"] += 1
            shape = [(int(m), int(n)) for m, n in modes] if S["k"] == "ttm" else None
            Gt = tt.TT(g, shape, eps=1e-14) if shape else tt.TT(g, eps=1e-14)
            ref = dense(proj(x, Gt))
            gs = max(1.0, torch.linalg.norm(g).item())
            err = torch.linalg.norm(dense(G) - ref).item()
            if err > 1e-8 * gs:
                problems.append(P("gradient", "riemannian_gradient differs from P(grad f) by %.3g (|grad| = %.3g)" % (err, gs)))
            if any(int(a) > 2 * b for a, b in zip(G.R, Rx)):
                problems.append(P("rank", "gradient has ranks %s > 2 * %s" % (list(G.R), Rx)))
            stats["nontrivial"] = 1
    except Exception as ex:  # noqa
        problems.append(P("exception", "raised %s: %s" % (type(ex).__name__, str(ex)[:200])))
    for n, why in algrun.changed(objs, snap):
        problems.append(P("operand-changed", "argument %s changed: %s" % (["x", "z", "w"][n], "; ".join(why)), "C06"))
    return {"problems": problems, "stats": stats, "sample": {"structure": S, "term": term, "normal_form": st.get("nf")}}


def rerun(payload):
    r = handler(payload["state"], {})
    return r["problems"] if r else []


def dispatch(st, opts):
    return handler(st, opts)
