"""Replay of spec/Manifold.tla (property C16): terms over the projector evaluated with the real routines and
compared with their normal form; scalar laws; rank law; riemannian_gradient against the projected dense gradient."""
import math
import numpy as np
import torch

from . import project, algrun
from .g3run import rand_tt, U64

TOL = 1e-9


def setup(tt, S, seed):
    gen = torch.Generator().manual_seed(600 + seed + sum(S["N"]) * 7 + len(S["N"]))
    dt = torch.float64
    N, M, R = [int(v) for v in S["N"]], [int(v) for v in S["M"]], [int(v) for v in S["R"]]
    is_m = S["k"] == "ttm"
    modes = list(zip(M, N)) if is_m else N
    d = len(N)
    cores = []
    for k in range(d):
        sh = [R[k], M[k], N[k], R[k + 1]] if is_m else [R[k], N[k], R[k + 1]]
        cores.append(torch.randn(sh, generator=gen, dtype=dt))
    x = tt.TT(cores)          # generic random cores: exactly the (minimal) ranks R
    z = rand_tt(tt, modes, 3, gen, dt)
    w = rand_tt(tt, modes, 2, gen, dt)
    return x, z, w, modes, gen


def dense(T):
    return project.dense(T.cores)


def tangent_projector(x):
    """dense orthogonal projector onto the tangent space at x: Q Q^T for an orthonormal basis Q of the range of the
    Jacobian d full(x) / d cores (own contraction; independent of torchtt.manifold)"""
    cores = [c.detach() for c in x.cores]
    cols = []
    for k, c in enumerate(cores):
        flat = torch.zeros(c.numel(), dtype=c.dtype)
        for e in range(c.numel()):
            flat.zero_(); flat[e] = 1.0
            cs = list(cores); cs[k] = flat.reshape(c.shape).clone()
            cols.append(project.dense(cs).reshape(-1))
    J = torch.stack(cols, dim=1)
    U, S, _ = torch.linalg.svd(J, full_matrices=False)
    r = int((S > 1e-10 * S[0]).sum())
    return U[:, :r]


def handler(st, opts):
    import torchtt as tt
    S, term = st["s"], st["term"]
    op = term["op"]
    if op in ("z", "w", "x", "P", "lin") and st["nf"] == {"z": 0, "w": 0, "x": 0, "pz": 0, "pw": 0} and op not in ("grad_quad",):
        # the undecided initial state of a term: skip (its successor carries the normal form) - except the all-zero NF
        if not (op == "lin" and False):
            pass
    seed = opts.get("seed", 0)
    problems, stats = [], {"behaviours": 1, "calls": 0}
    key = {"op": "manifold", "kind": S["k"], "d": len(S["N"]), "term": op}

    def P(cls, msg, prop="C16"):
        kk = dict(key); kk["cls"] = cls
        return {"prop": prop, "cls": cls, "op": "manifold", "key": kk, "msg": "base point %s N=%s R=%s, %s: %s" % (S["k"], list(S["N"]), list(S["R"]), op, msg),
                "replay": {"engine": "vf.g3manifold", "state": st}}
    x, z, w, modes, gen = setup(tt, S, seed)
    Rx = [int(r) for r in x.R]
    proj = tt.manifold.riemannian_projection
    objs = [x, z, w]
    snap = algrun.snapshot(objs)
    scale = max(1.0, torch.linalg.norm(dense(z)).item(), torch.linalg.norm(dense(w)).item(), torch.linalg.norm(dense(x)).item())
    try:
        if op in ("z", "w", "x", "P", "lin"):
            if "nf" not in st or (st["nf"] == {"z": 0, "w": 0, "x": 0, "pz": 0, "pw": 0}):
                return None          # initial (undecided) state
            atoms = {"z": dense(z), "w": dense(w), "x": dense(x)}
            Pz, Pw = proj(x, z), proj(x, w)
            stats["calls"] += 2
            atoms["pz"], atoms["pw"] = dense(Pz), dense(Pw)
            for nm, T in (("P z", Pz), ("P w", Pw)):
                if any(int(a) > 2 * b for a, b in zip(T.R, Rx)):
                    problems.append(P("rank", "%s has ranks %s > 2 * %s" % (nm, list(T.R), Rx)))

            def ev(t):
                if t["op"] in ("z", "w", "x"):
                    return {"z": z, "w": w, "x": x}[t["op"]]
                if t["op"] == "P":
                    stats["calls"] += 1
                    return proj(x, ev(t["a"]))
                return t["ca"] * ev(t["a"]) + t["cb"] * ev(t["b"])
            got = dense(ev(term))
            nf = st["nf"]
            ref = sum(float(nf[k]) * atoms[k] for k in ("z", "w", "x", "pz", "pw"))
            csum = max(1.0, sum(abs(nf[k]) for k in nf))
            err = torch.linalg.norm(got - ref).item()
            if err > TOL * scale * csum:
                problems.append(P("law", "term differs from its normal form %s by %.3g (scale %.3g): the projector is not linear / idempotent / does not fix x" % (nf, err, scale)))
            stats["nontrivial"] = 1 if op in ("P", "lin") else 0
        elif op in ("oracle", "oracle_upd", "oracle_nc"):
            if op == "oracle_nc":
                # the same values in column-major storage (non-contiguous cores, as returned by round / t / permute / mprod)
                def colmajor(c):
                    p = list(range(c.dim()))[::-1]
                    return c.permute(p).contiguous().permute(p)
                x = tt.TT([colmajor(c) for c in x.cores]); z = tt.TT([colmajor(c) for c in z.cores]); w = tt.TT([colmajor(c) for c in w.cores])
                objs = [x, z, w]
                snap = algrun.snapshot(objs)
            if op == "oracle_upd":
                # a history on the same base-point object: project, replace the first core, project, replace the last core
                proj(x, z)
                c0 = x.cores[0]
                x.set_core(0, torch.randn(c0.shape, generator=gen, dtype=c0.dtype))
                proj(x, w)
                cl = x.cores[-1]
                x.set_core(len(x.cores) - 1, torch.randn(cl.shape, generator=gen, dtype=cl.dtype))
                stats["calls"] += 2
                snap = algrun.snapshot(objs)
                Rx = [int(r) for r in x.R]
            Q = tangent_projector(x)
            for nm, T in (("z", z), ("w", w)):
                got = dense(proj(x, T)).reshape(-1)
                td = dense(T).reshape(-1)
                ref = Q @ (Q.T @ td)
                stats["calls"] += 1
                err = torch.linalg.norm(got - ref).item()
                if err > 1e-8 * scale:
                    problems.append(P("oracle", "P %s differs from the orthogonal projection onto the tangent space at the current x by %.3g (scale %.3g)" % (nm, err, scale)))
            # homogeneity at tiny magnitude: P(c z) = c P(z) for c = 1e-12 (no absolute threshold anywhere)
            cz = tt.TT([z.cores[0] * 1e-12] + [q.clone() for q in z.cores[1:]])
            got = dense(proj(x, cz)).reshape(-1)
            ref = (Q @ (Q.T @ dense(z).reshape(-1))) * 1e-12
            stats["calls"] += 1
            if torch.linalg.norm(got - ref).item() > 1e-8 * scale * 1e-12:
                problems.append(P("oracle", "P(1e-12 z) differs from 1e-12 P(z) by %.3g (relative to 1e-12)" % (torch.linalg.norm(got - ref).item() / 1e-12)))
            # ... and close to the base point: P(x + 1e-10 w) = x + 1e-10 P(w)
            near = x + tt.TT([w.cores[0] * 1e-10] + [q.clone() for q in w.cores[1:]])
            got = dense(proj(x, near)).reshape(-1) - dense(x).reshape(-1)
            ref = (Q @ (Q.T @ dense(w).reshape(-1))) * 1e-10
            stats["calls"] += 1
            if torch.linalg.norm(got - ref).item() > 1e-4 * 1e-10 * scale:
                problems.append(P("oracle", "P(x + 1e-10 w) - x differs from 1e-10 P(w) by %.3g (relative to 1e-10)" % (torch.linalg.norm(got - ref).item() / 1e-10)))
            # tangent vectors are fixed: x with one core replaced
            for k in (0, len(x.cores) - 1):
                cs = [c.clone() for c in x.cores]
                cs[k] = torch.randn(cs[k].shape, generator=gen, dtype=cs[k].dtype)
                t = tt.TT(cs)
                stats["calls"] += 1
                err = torch.linalg.norm(dense(proj(x, t)) - dense(t)).item()
                if err > 1e-8 * max(1.0, torch.linalg.norm(dense(t)).item()):
                    problems.append(P("oracle", "a tangent vector (x with core %d replaced) is not fixed by P: differs by %.3g" % (k, err)))
            # the gradient routine agrees with the oracle as well (linear, quadratic and quartic f)
            xd_ = dense(x)
            for fname, f, gd in (("<X,w>", lambda X: (X * w).sum(), dense(w)),
                                 ("0.5|X-z|^2", lambda X: 0.5 * ((X - z) * (X - z)).sum(), xd_ - dense(z)),
                                 ("0.25 sum X^4", lambda X: 0.25 * (X * X * X * X).sum(), xd_ ** 3)):
                G = tt.manifold.riemannian_gradient(x, f)
                ref = Q @ (Q.T @ gd.reshape(-1))
                stats["calls"] += 1
                if torch.linalg.norm(dense(G).reshape(-1) - ref).item() > 1e-8 * max(scale, torch.linalg.norm(gd).item()):
                    problems.append(P("oracle", "riemannian_gradient of %s differs from the projection of the dense gradient onto the tangent space at the current x" % fname))
            stats["nontrivial"] = 1
        elif op == "scalar_laws":
            Pz, Pw = proj(x, z), proj(x, w)
            stats["calls"] += 2
            zd, wd, pz, pw = dense(z), dense(w), dense(Pz), dense(Pw)
            a = torch.sum(pz * wd).item(); b = torch.sum(zd * pw).item()
            if abs(a - b) > TOL * scale * scale:
                problems.append(P("self-adjoint", "<P z, w> = %.12g but <z, P w> = %.12g" % (a, b)))
            c = torch.sum((zd - pz) * pw).item()
            if abs(c) > TOL * scale * scale:
                problems.append(P("orthogonal", "<z - P z, P w> = %.3g, not 0" % c))
            px = dense(proj(x, x))
            if torch.linalg.norm(px - dense(x)).item() > TOL * scale:
                problems.append(P("fixes-x", "P x differs from x by %.3g" % torch.linalg.norm(px - dense(x)).item()))
            stats["nontrivial"] = 1
        else:
            # riemannian_gradient(x, f) = P(grad f(x)) with the dense Euclidean gradient
            t_d = dense(z); c_d = dense(w); xd = dense(x)
            if op == "grad_quad":
                f = lambda X: 0.5 * ((X - z).norm(True) if False else ((X - z) * (X - z)).sum())
                g = xd - t_d
            elif op == "grad_lin":
                f = lambda X: (X * w).sum()
                g = c_d
            else:
                f = lambda X: 0.25 * (X * X * X * X).sum()
                g = xd ** 3
            G = tt.manifold.riemannian_gradient(x, f)
            stats["calls"] += 1
            shape = [(int(m), int(n)) for m, n in modes] if S["k"] == "ttm" else None
            Gt = tt.TT(g, shape, eps=1e-14) if shape else tt.TT(g, eps=1e-14)
            ref = dense(proj(x, Gt))
            gs = max(1.0, torch.linalg.norm(g).item())
            err = torch.linalg.norm(dense(G) - ref).item()
            if err > 1e-8 * gs:
                problems.append(P("gradient", "riemannian_gradient differs from P(grad f) by %.3g (|grad| = %.3g)" % (err, gs)))
            if any(int(a) > 2 * b for a, b in zip(G.R, Rx)):
                problems.append(P("rank", "gradient has ranks %s > 2 * %s" % (list(G.R), Rx)))
            stats["nontrivial"] = 1
    except Exception as ex:  # noqa
        problems.append(P("exception", "raised %s: %s" % (type(ex).__name__, str(ex)[:200])))
    for n, why in algrun.changed(objs, snap):
        problems.append(P("operand-changed", "argument %s changed: %s" % (["x", "z", "w"][n], "; ".join(why)), "C06"))
    return {"problems": problems, "stats": stats, "sample": {"structure": S, "term": term, "normal_form": st.get("nf")}}


def rerun(payload):
    r = handler(payload["state"], {})
    return r["problems"] if r else []


def dispatch(st, opts):
    return handler(st, opts)
