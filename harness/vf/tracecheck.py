"""Code -> spec: batch validation of recorded traces by a TLC trace specification.
The traces are written as one JSON document; the trace spec selects a trace id nondeterministically, registers how
far each could be matched and a POSTCONDITION prints the rejected ones."""
import json, os, re, time

from . import tlc


def validate(module, cfg, traces, tag, strip=("cfg",), workers=1, timeout=1800):
    """returns (tlc summary, rejected: list of (index, matched, total))"""
    work = os.path.join(tlc.OUT, "traces")
    os.makedirs(work, exist_ok=True)
    path = os.path.join(work, tag + ".json")
    slim = [{k: v for k, v in t.items() if k not in strip} for t in traces]
    with open(path, "w") as f:
        json.dump({"traces": slim}, f)
    r = tlc.run_tlc(module, cfg, tag=tag, workers=workers, env={"TRACE_FILE": path}, timeout=timeout)
    rejected = []
    for m in re.finditer(r'<<"REJECTED", (\d+), "matched", (\d+), "of", (\d+)>>', r["out"]):
        rejected.append((int(m.group(1)) - 1, int(m.group(2)), int(m.group(3))))
    ok = r.get("no_error") and not rejected and "Postcondition" not in r["out"].replace("POSTCONDITION", "")
    r["postcondition_ok"] = not r.get("postcondition_false") and ("is violated" not in r["out"])
    r["trace_file"] = path
    return r, rejected


def rerun(payload):
    """--replay of a rejected trace: validate that single trace again"""
    r, rejected = validate(payload["module"], payload["module"], [payload["trace"]], "replay_" + payload["module"], strip=("label", "cfg"))
    if rejected or not r["postcondition_ok"]:
        return [{"prop": None, "cls": "trace-rejected", "msg": "trace still rejected (matched %s)" % (rejected,)}]
    return []
