"""Single source for MANIFEST.json (bin/mkmanifest writes it and validates it against the schema)."""
import json, os

GUARD = "TORCHTT_VERIF"
MC = "model_checking"
EX = "exploration"

# property -> claimed check description; properties absent here go to not_applicable with the reason in NA
CHECKS = {
 "C03": dict(level=MC, design="§6 C03",
   text="TLC enumerates every one-step behaviour of spec/Alg.tla restricted to the TT-tensor arithmetic (all operand pairs of order<=3 over sizes {1,2,3} with small ranks, all broadcast alignments, 12 scalar kinds, real/complex, canonical order-4/5 profiles), checks on the model that the core-level construction equals the dense definition and obeys the rank law, and every enumerated state is executed on the implementation and compared bit-for-bit (dense value by the harness's own contraction, ranks, shape, dtype, full()).",
   note="Small-scope: orders<=3 exhaustively, 4-5 by canonical profiles; integer fills (outputs are polynomials in the core entries). Trusted: TLC, the harness's tensordot contraction, torch arithmetic on small integers.",
   technique="TLA+ dense/TT-level semantics, TLC exhaustive enumeration, every state replayed into torchtt and compared exactly"),
 "C04": dict(level=MC, design="§6 C04",
   text="TLC enumerates every one-step behaviour of spec/Alg.tla restricted to the operator algebra (A@x, x@A, A@B, A@dense with 0..3 batch modes, transpose, + - *, scalar operations, kron) over all rectangular operators of order 1-2 with mode sizes in {1,2,3} and canonical order-3/4 operators with pairwise distinct row/column/inner sizes and ranks; TLC checks that the core-level contraction equals the dense operator expression and the product-rank law; every state is executed on the implementation and compared bit-for-bit.",
   note="Small scope (order<=2 exhaustive, 3-4 canonical), integer fills. Trusted: TLC, the harness's own contraction and mode un-interleaving.",
   technique="TLA+ dense/TT-level operator semantics, TLC exhaustive enumeration, every state replayed into torchtt and compared exactly"),
 "C07": dict(level=MC, design="§6 C07",
   text="TLC computes the exact Gaussian-integer value of norm^2, sum (all modes / every subset), dot (full / every axis subset, second argument conjugated) and bilinear_form for every enumerated structure (tensors order<=3, operators order<=2, canonical order-4/5, real and complex); each state is executed with autograd tracking off and on and compared exactly (QR-based norm within roundoff); result kind and shape are compared with the dense reduction.",
   note="Small scope, integer fills; the untracked norm goes through QR and is compared within 1e-10 relative.",
   technique="TLA+ dense reductions over Gaussian integers, TLC enumeration, replay into torchtt with both autograd states"),
 "C08": dict(level=MC, design="§6 C08",
   text="spec/TTOps.tla transcribes Python/numpy index semantics (negative ints, slice normalisation with steps, None, Ellipsis expansion, short tuples) over dense values; TLC enumerates index expressions per tensor (with singleton modes) and computes the resulting shape and every entry; the same Python index object is applied to the real TT and compared for kind (scalar vs TT), mode sizes and all values; apply_mask likewise.",
   note="Small scope; per-mode item sets are fixed lists (rich for order<=2, lean for order>=3); empty slices and negative steps not enumerated.",
   technique="TLA+ transcription of index-expression semantics, TLC enumeration, same index object replayed on torchtt"),
 "C09": dict(level=MC, design="§6 C09",
   text="Dense definitions of cat, constant / diagonal padding, diag (both directions), mode products, to_ttm, conj, clone in spec/TTOps.tla; TLC enumerates operands, axes, width vectors, fill values and mode subsets, checks the core-level concatenation against the dense definition, and every state is executed on the implementation and compared exactly.",
   note="Small scope (order<=2 exhaustive in quick, <=3 thorough, canonical order 4); operator padding only when every mode is padded.",
   technique="TLA+ dense semantics, TLC enumeration, replay into torchtt with exact comparison"),
 "C05": dict(level=MC, design="§6 C05",
   text="spec/Heap.tla is a state machine over a heap of TT objects with exact cores: 26 public operations (algebra, slicing, sums, cat, pad, diag, in-place set_core with changed mode size, reduce_dims) each as one action; TLC checks the invariant AllWF on every reachable state (exhaustive to depth 2/3, simulation to depth 8) and every behaviour is re-executed on torchtt, where after each call every live object must be well formed (cores vs N, M, R, shape, is_ttm) and the new object must have the model's kind, shape and exact value. Code->spec: the repository's own tests and seeded random walks over the real API (incl. operations with implementation-chosen ranks) run under an outside recorder and every public call is validated by TLC against spec/TraceHeap.tla.",
   note="Small scope (<=9 live objects, ranks<=6, orders<=4); operations with implementation-chosen ranks are covered at descriptor level by trace validation of recorded runs.",
   technique="TLA+ heap state machine, TLC invariant checking (BFS + simulation), behaviours replayed into torchtt with full-heap projection; recorded runs (test suite, random walks) validated by a TLC trace specification"),
 "C06": dict(level=MC, design="§6 C06",
   text="The action property Stable of spec/Heap.tla (no step changes an existing object except the target of set_core / reduce_dims) is checked by TLC on the model and enforced on the implementation by replaying every generated history and comparing, after the last call, every pre-existing live object bitwise (cores, metadata, torch version counters) with its snapshot and with the model's heap; views created earlier in a history remain live so writes through shared storage are visible. spec/Effects.tla (table of 70 public routines x argument positions with allowed mutation sets) is enumerated and every entry called with the optional initial guess absent / fresh / aliasing an operand / reused; the repository's tests and random walks under the recorder are validated against spec/TraceHeap.tla (an object already in the heap changes only as target of set_core / reduce_dims).",
   note="Small scope as C05; iterative routines with optional initial guesses are covered by the effects table run (see evidence).",
   technique="TLA+ action property over heap histories + effects table, TLC, replay with bitwise operand snapshots; recorded runs validated by a TLC trace specification"),
 "C18": dict(level=MC, design="§6 C18",
   text="spec/Err.tla is the error side of the operation table: for every public entry point the classes of incompatible arguments (shape / order / kind mismatch at each position, wrong argument types, out-of-range axes, indices and core positions, invalid permutations, element-count mismatches, ill-formed core lists, bad rank lists). TLC enumerates the table over small structures and checks on the model that each case has no dense counterpart under torch broadcasting; every case is called on the implementation: returning anything is a violation; for docstring-named cases the exception must be a library class.",
   note="The table's completeness is by reading the public API (a coverage list in the evidence names the entry points it covers); invalid-but-well-typed values (negative eps) are outside the property.",
   technique="TLA+ error-outcome table, TLC enumeration + invariant that every case is truly incompatible, each case called on torchtt"),
 "C19": dict(level=MC, design="§6 C19",
   text="TLC enumerates (structure, origin, operation) for save+load, clone, detach, to(dtype), cpu, numpy with the expected outcome 'identity on the projected state' (descriptor, value); the harness builds the object from cores / TT-SVD (numpy ints in R) / strided slices / transposed views, performs the operation and checks descriptor, dtype, bit-identical cores, the TLC value, storage disjointness of clones (incl. a write into the clone).",
   note="CPU only; small scope of structures (order<=3 exhaustive, canonical order 4-6).",
   technique="TLA+ identity specification over enumerated structures/origins, TLC enumeration, replay with bitwise core comparison"),
 "C20": dict(level=MC, design="§6 C20",
   text="The action LayerForward of spec/Alg.tla defines forward(x) = W.x + b over exact integers for every enumerated (size_in, size_out, rank profile, batch shape); the harness constructs the real layer, checks parameter registration, overwrites parameters with the model's integer fill and compares forward bit-for-bit for 0..3 batch dims, float64/float32; on the random initialisation forward and parameter gradients are compared with autograd of the dense affine map.",
   note="Order 1-2 layers exhaustive over sizes {1,2,3}, canonical order 3-4 up to size 5; initialiser statistics not covered.",
   technique="TLA+ dense affine-map semantics, TLC enumeration, replay into torch.nn module with exact comparison + autograd cross-check"),
 "C01": dict(level=MC, design="§6 C01",
   text="spec/ChopDefs.tla transcribes rank_chop (Python and C++) over exact integer energies with its contract; spec/Trunc.tla is the error ledger of the truncation sweep (threshold eps/sqrt(d-1) relative to the current remainder, caps, discarded energy). TLC checks the contract on every small spectrum, and ErrBound / RankBound on every sweep with environment-chosen spectra; every state of the chop model is executed on the real rank_chop, and every nested sweep behaviour (incl. exact threshold ties and saturated bonds) is realised as arrays with exactly those unfolding spectra in 9 variants (torch/numpy, singleton modes, operator shape, complex, float32, rotated, tall, flat+shape) and decomposed by torchtt.TT; verdict by the property's own statements (shape, rank bounds, measured error <= eps||A||). Code->spec: the chop events emitted by the guarded hooks in to_tt during every one of these real decompositions (and of random arrays) are validated by TLC against spec/TraceTrunc.tla (bond order, rank within cap, discarded energy within the per-bond tolerance, (d-1)*tolerance^2 <= eps^2, measured error within the budget).",
   note="The numerical establishment of the bound is a measurement on model-generated inputs (LAPACK trusted); non-nested spectra only via random arrays (exploration-grade part, counted separately in the evidence).",
   technique="TLA+ transcription of rank_chop + truncation ledger, TLC invariants, behaviours realised as superdiagonal arrays and replayed into torchtt.TT; hook-recorded sweeps validated by a TLC trace specification"),
 "C02": dict(level=MC, design="§6 C02",
   text="Same chop and ledger models as C01 (right-to-left processing order); every nested behaviour is realised as a TT with exactly the model's spectra, stored with ranks inflated through non-orthogonal gauges and cores rescaled by 1e4/1e-4 (also complex, operator, float32), then x.round(eps, rmax) is run: same shape, no rank grows, ranks <= rmax and <= exact rank, error <= eps||x|| unless capped, operand bitwise unchanged with consistent metadata. The chop events of every real round_tt sweep are validated by TLC against spec/TraceTrunc.tla.",
   note="As C01; conditioning of the gauges up to ~1e8.",
   technique="TLA+ truncation ledger, TLC invariants, behaviours realised as over-parameterised TTs and replayed into TT.round; hook-recorded sweeps validated by a TLC trace specification"),
 "C10": dict(level=MC, design="§6 C10",
   text="spec/Reshape.tla is a branch-by-branch transcription of the two-cursor merge/split walk of torchtt.reshape (tensor and operator branch) over shapes; TLC walks every (source, target) pair of a small scope and checks ShapeOK (emitted modes = requested), AllConsumed (no input core left behind: the sign/phase defect class), the SVD-split budget and termination; spec/Permute.tla (bubble sort with swap budget, all permutations) and spec/Qtt.tla (split/regroup arithmetic, round trip) likewise. Every walked case is executed on torchtt on random data (3 rank profiles, real/complex, eps default..1e-1) and compared with the dense reshape/permute: exact mode sizes, value within 3*eps, sign/phase, operand unchanged.",
   note="Values are sampled (random cores); the truncation-error amplification of permute in non-orthogonal gauges is only sampled. The float math.log pitfall of to_qtt does not occur for mode_size 2 up to 2^39 (checked) and is outside the power-of-two scope for other bases.",
   technique="TLA+ transcription of the reshape/permute/QTT control flow, TLC invariants, every walked case replayed into torchtt"),
 "C11": dict(level=EX, design="§6 C11",
   text="TLC enumerates the configuration space of the four product routines from spec/Configs.tla (structure, ranks, data class, eps decade, initial-guess mode incl. aliasing and reuse, dtype, seed) with the abstract expected outcome; every configuration is executed and the relative error against the dense product is measured (<= 10*eps), together with result shape, well-formedness and bitwise-unchanged arguments. The sweep's rank/shape calculus is model-checked separately (spec/Dmrg.tla) and recorded sweeps are validated against it.",
   note="Exploration: accuracy for all seeds is sampled, not proved. The model contributes the exhaustive configuration space and the sweep calculus, not the numerical bound.",
   technique="TLC-enumerated configuration space + harness-measured error bound; TLA+ sweep calculus and accuracy ledger (LastChop, Converged) with TLC trace validation of hook-recorded sweeps"),
 "C12": dict(level=EX, design="§6 C12",
   text="TLC enumerates amen_solve configurations (system class x structure x rank x eps x preconditioner x max_full x local solver x guess x seed) from spec/Configs.tla; each is solved and the dense relative residual is compared with 10*eps; shape and unchanged arguments are checked.",
   note="Exploration; three well-conditioned system classes named in the property.",
   technique="TLC-enumerated configuration space + harness-measured residual; TLA+ AMEn sweep calculus, accuracy ledger (ResTrunc, Converged) and restarted-GMRES / BiCGSTAB automaton (spec/Krylov.tla) with TLC trace validation of hook-recorded sweeps and local solves"),
 "C13": dict(level=EX, design="§6 C13",
   text="TLC enumerates the division configurations (form x structure x ranks x eps x starting-tensor mode x seed) from spec/Configs.tla; q*y is compared densely with x (<= 10*eps_solver), operands (incl. an aliased or reused starting tensor) must be unchanged, x/scalar exact.",
   note="Exploration; divisors y = 1 + z*z bounded away from zero.",
   technique="TLC-enumerated configuration space + harness-measured q*y = x; TLC trace validation of the recorded amen_divide sweeps and local GMRES calls"),
 "C14": dict(level=MC, design="§6 C14",
   text="spec/Cross.tla models the index-set and rank bookkeeping of the two-site DMRG cross (supercore evaluation size, truncation, rank kick through a possibly wide QR, |Idx[k]| = rank[k]); TLC explores it exhaustively over small shapes and every truncation-rank choice (Conformable, IdxCovers). Every configuration from spec/Configs.tla is executed with the user function wrapped; each call is logged and the event lists are validated by TLC against spec/TraceCross.tla (rows explained by some admissible rank choice, d integer columns each in [0,N[k]); for function_interpolate every value row an actual entry of the argument tensors at one multi-index). Accuracy (<= 20*eps) is measured against the exact dense tensor.",
   note="The index-range and bookkeeping statements are decided by TLC on the model and on every recorded trace; the accuracy statement is exploration-grade (measured on sampled seeds).",
   technique="TLA+ bookkeeping model + TLC; recorded user-function calls validated by a TLC trace specification; measured accuracy"),
 "C16": dict(level=EX, design="§6 C16",
   text="spec/Manifold.tla is the equational theory of an orthogonal projector (linear, idempotent, fixes x) over terms in z, w, x with computed normal forms; TLC checks the laws on every enumerated term and base-point structure; each term is evaluated with the real routines and compared with its normal form, together with the scalar laws (self-adjoint, residual orthogonal), the rank law and riemannian_gradient = P(dense gradient) for three f.",
   note="Exploration: floats, sampled vectors; the model decides which expressions must agree.",
   technique="TLA+ equational theory with normal forms, TLC enumeration of terms, evaluation on torchtt against the normal form and against a dense Jacobian-range projector (also after a history of set_core on the base point)"),
 "C15": dict(level=EX, design="§6 C15",
   text="spec/Expr.tla is the typed program space of scalar-valued expressions over the differentiable TT operations (body x head x reducer) together with the choice of tracked cores; TLC enumerates every well-typed program; each is built on torchtt with watched cores and on dense arrays contracted from copies of the same leaves, and values, gradients (via grad.grad / grad.grad_list) and their shapes are compared, with a finite-difference cross-check.",
   note="Exploration: the derivative oracle is torch autograd on the dense program and finite differences; the model contributes the exhaustive, typed program space.",
   technique="TLA+ typed expression grammar, TLC enumeration of programs, execution on torchtt against dense autograd"),
 "C17": dict(level=EX, design="§6 C17",
   text="The check compiles the extension from /repo/cpp, then runs every fast_matvec / amen_solve configuration enumerated by TLC from spec/Configs.tla through both backends on identical inputs (all preconditioners, max_full 0/500, with and without initial guess): each backend must satisfy the C11 / C12 bound, arguments unchanged, and the results must agree within tolerance; the C++ rank_chop is transcribed in spec/ChopDefs.tla and checked against the contract by TLC.",
   note="Exploration; no visibility inside the C++ sweeps; a failing build is reported as a violation ('accepts the same inputs').",
   technique="TLC-enumerated configuration space x backend, both implementations executed side by side; TLA+ transcription of the C++ rank_chop"),
}

NA = {}
NOT_YET = "check not yet built in this round (design in DESIGN.md §6); no claim is made"


def build():
    props = [json.loads(l)["id"] for l in open(os.path.join(os.path.dirname(__file__), "..", "..", "properties.jsonl"))]
    checks, na = [], []
    for p in props:
        if p in CHECKS:
            c = CHECKS[p]
            checks.append({
                "property_id": p,
                "quick_cmd": "./bin/check %s --tier quick" % p,
                "thorough_cmd": "./bin/check %s --tier thorough" % p,
                "evidence_file": "/verif/evidence/%s.json" % p,
                "replay_cmd_template": "./bin/check %s --replay {path}" % p,
                "engine": "tlc+replay",
                "level_claimed": {"category": c["level"], "text": c["text"], "design_ref": c["design"]},
                "level_note": c["note"],
                "technique": c["technique"]})
        else:
            na.append({"property_id": p, "reason": NA.get(p, NOT_YET)})
    return {
        "version": 1,
        "setup_cmd": "./bin/setup",
        "hooks": {"guard": GUARD,
                  "enable": "checks import torchtt from /repo's working tree (PYTHONPATH=/repo) with %s=1 in the environment; there is no build step" % GUARD,
                  "baseline_off_cmd": "cd /repo && env -u %s /venv/bin/python -m pytest -ra -q -p no:cacheprovider --timeout=900 --continue-on-collection-errors" % GUARD,
                  "source_commits": ["7bfc5b2", "d5d7154", "d290e3c", "e461287", "da8579f", "f947bba", "4e46be4"],
                  "add_only": True},
        "engines": [{"name": "tlc+replay", "path": "/verif/bin/check",
                     "serves_properties": sorted(CHECKS),
                     "kind_free_text": "TLA+ specifications under /verif/spec model-checked with TLC; TLC state dumps / simulated behaviours are replayed into torchtt (spec->code) and recorded traces of torchtt are validated by TLC trace specifications (code->spec)"}],
        "checks": checks,
        "notes": "See DESIGN.md. known_findings.json lists repaired (fixed:) and open findings.",
        "not_applicable": na}
