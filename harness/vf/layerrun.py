"""Replay of the C20 states of spec/Alg.tla (LinearLayerTT): parameter registration, exact forward on integer
parameters for every batch shape, and gradients against autograd of the dense affine map."""
import numpy as np
import torch

from . import algrun, fill, project


def handler(st, opts):
    case, res = st["case"], st["res"]
    if case["op"] != "layer":
        return None
    import torchtt as tt
    A = case["x"]
    d = len(A["I"])
    size_in, size_out, rank = [int(n) for n in A["J"]], [int(m) for m in A["I"]], [int(r) for r in A["R"]]
    bsh = [int(b) for b in case["bsh"]]
    problems, stats = [], {"behaviours": 1}

    def P(cls, msg, extra=None):
        k = {"op": "layer", "cls": cls, "nbatch": len(bsh), "order": d}
        k.update(extra or {})
        return {"prop": "C20", "cls": cls, "op": "layer", "key": k, "replay": {"engine": "vf.layerrun", "state": st},
                "msg": "LinearLayerTT(in=%s, out=%s, rank=%s) batch %s: %s" % (size_in, size_out, rank, bsh, msg)}
    for dtn, dt in (("f64", torch.float64), ("f32", torch.float32)):
        for init in ("He", "Glo"):
            stats["calls"] = stats.get("calls", 0) + 1
            if dtn == "f64" and init == "He" and d >= 2 and max(rank) >= 2:
                stats["nontrivial"] = stats.get("nontrivial", 0) + 1
            torch.manual_seed(1 + len(bsh))
            try:
                layer = tt.nn.LinearLayerTT(size_in, size_out, rank, dtype=dt, initializer=init)
            except Exception as e:  # noqa
                problems.append(P("exception", "constructor raised %s: %s" % (type(e).__name__, str(e)[:200]), {"exc": type(e).__name__}))
                continue
            params = list(layer.parameters())
            shapes = [tuple(p.shape) for p in params]
            want = [(rank[k], size_out[k], size_in[k], rank[k + 1]) for k in range(d)] + [tuple(size_out)]
            if sorted(shapes) != sorted(want):
                problems.append(P("params", "parameters %s, expected %s" % (shapes, want)))
                continue
            if not all(p.requires_grad for p in params) or not all(p.dtype == dt for p in params):
                problems.append(P("params", "parameters not trainable / wrong dtype: %s" % [(p.requires_grad, p.dtype) for p in params]))
            cores = [p for p in params if p.dim() == 4 and p is not layer.bias]
            cores = list(layer.cores)
            X = fill.dense_fill(bsh + size_in, A["f"] + 1, False, dt)
            # (a) random initialisation as constructed: forward and gradients vs the dense affine map
            try:
                xr = torch.randn(bsh + size_in, dtype=dt)
                g = torch.randn(bsh + size_out, dtype=dt)
                out = layer(xr)
                W = project.dense([c.detach() for c in cores])
                nb = len(bsh)
                ref = torch.tensordot(xr, W, dims=(list(range(nb, nb + d)), list(range(d, 2 * d)))) + layer.bias.detach()
                tol = 1e-10 if dt == torch.float64 else 2e-4
                if list(out.shape) != list(ref.shape) or (out.detach() - ref).abs().max().item() > tol * max(1.0, ref.abs().max().item()):
                    problems.append(P("value", "forward differs from W.x+b on random parameters (%s init, %s)" % (init, dtn), {"init": init}))
                else:
                    (out * g).sum().backward()
                    leaves = [c.detach().clone().requires_grad_(True) for c in cores]
                    bl = layer.bias.detach().clone().requires_grad_(True)
                    t = leaves[0][0]
                    for c in leaves[1:]:
                        t = torch.tensordot(t, c, dims=([t.dim() - 1], [0]))
                    t = t[..., 0].permute([2 * i for i in range(d)] + [2 * i + 1 for i in range(d)])
                    r2 = torch.tensordot(xr, t, dims=(list(range(nb, nb + d)), list(range(d, 2 * d)))) + bl
                    (r2 * g).sum().backward()
                    for k, (c, l) in enumerate(zip(cores + [layer.bias], leaves + [bl])):
                        if c.grad is None or (c.grad - l.grad).abs().max().item() > 50 * tol * max(1.0, l.grad.abs().max().item()):
                            problems.append(P("grad", "gradient of parameter %d differs from the dense map's (%s)" % (k, dtn), {"init": init}))
                            break
            except Exception as e:  # noqa
                problems.append(P("exception", "forward/backward raised %s: %s" % (type(e).__name__, str(e)[:200]), {"exc": type(e).__name__}))
                continue
            # (b) integer parameters: exact comparison with the TLC value
            if init == "He":
                with torch.no_grad():
                    mc = fill.mk_cores(A, real=dtn)
                    for p, c in zip(cores, mc):
                        p.copy_(c)
                    layer.bias.copy_(fill.dense_fill(size_out, A["f"] + 2, False, dt))
                    out = layer(X)
                exp = algrun.expected_dense(res, dt)
                if list(out.shape) != list(exp.shape):
                    problems.append(P("shape", "forward shape %s, expected %s" % (list(out.shape), list(exp.shape))))
                elif not torch.equal(out, exp):
                    problems.append(P("value", "forward on integer parameters differs from the model (max |diff| %g, %s)" % (
                        (out - exp).abs().max().item(), dtn)))
            # (b2) inference mode with a history: eval(); forward; the parameters are replaced (as load_state_dict or an optimizer step
            #      would); forward again - the layer is the affine map of its *current* parameters
            try:
                layer.eval()
                xe = torch.randn(bsh + size_in, dtype=dt)
                layer(xe)
                with torch.no_grad():
                    for p_ in layer.parameters():
                        p_.copy_(torch.randn(p_.shape, dtype=dt))
                oe = layer(xe)
                We = project.dense([c.detach() for c in layer.cores])
                re_ = torch.tensordot(xe, We, dims=(list(range(nb, nb + d)), list(range(d, 2 * d)))) + layer.bias.detach()
                tole = 1e-10 if dt == torch.float64 else 2e-4
                if list(oe.shape) != list(re_.shape) or (oe.detach() - re_).abs().max().item() > tole * max(1.0, re_.abs().max().item()):
                    problems.append(P("value", "in eval mode, forward after the parameters were replaced is not W.x+b of the current parameters", {"init": init}))
                layer.train()
            except Exception as e:  # noqa
                problems.append(P("exception", "eval-mode history raised %s: %s" % (type(e).__name__, str(e)[:200]), {"exc": type(e).__name__, "phase": "eval"}))
            # (c) the layer converted as a torch module (.double() / .float()): it is still the dense affine map of its
            #     (converted) parameters - "any dtype" includes a dtype reached by conversion
            try:
                other = torch.float32 if dt == torch.float64 else torch.float64
                layer2 = layer.to(other)
                x2 = torch.randn(bsh + size_in, dtype=other)
                out2 = layer2(x2)
                W2 = project.dense([c.detach() for c in layer2.cores])
                ref2 = torch.tensordot(x2, W2, dims=(list(range(nb, nb + d)), list(range(d, 2 * d)))) + layer2.bias.detach()
                tol2 = 1e-10 if other == torch.float64 else 2e-4
                if out2.dtype != other:
                    problems.append(P("dtype", "after .to(%s) forward returns %s" % (other, out2.dtype), {"init": init}))
                elif list(out2.shape) != list(ref2.shape) or (out2.detach() - ref2).abs().max().item() > tol2 * max(1.0, ref2.abs().max().item()):
                    problems.append(P("value", "forward differs from W.x+b after the layer was converted to %s" % other, {"init": init}))
            except Exception as e:  # noqa
                problems.append(P("exception", "forward after module conversion raised %s: %s" % (type(e).__name__, str(e)[:200]), {"exc": type(e).__name__, "phase": "converted"}))
    return {"problems": problems, "stats": stats, "sample": {"size_in": size_in, "size_out": size_out, "rank": rank, "batch": bsh}}


def rerun(payload):
    r = handler(payload["state"], {})
    return r["problems"] if r else []
