"""Replay of spec/Expr.tla (property C15): every enumerated program is built once with torchtt on watched cores and
once with dense torch operations on arrays contracted from copies of the same leaf cores; the gradients with respect
to every tracked core are compared (autograd of the dense program, plus central finite differences on two entries),
and grad.grad / grad.grad_list must return them with the shapes of the cores."""
import math
import numpy as np
import torch

from . import project

RTOL = 1e-8


def contract(cores):
    t = cores[0][0]
    for c in cores[1:]:
        t = torch.tensordot(t, c, dims=([t.dim() - 1], [0]))
    return t[..., 0]


def dense_ttm(cores):
    t = cores[0][0]
    for c in cores[1:]:
        t = torch.tensordot(t, c, dims=([t.dim() - 1], [0]))
    t = t[..., 0]
    d = len(cores)
    return t.permute([2 * i for i in range(d)] + [2 * i + 1 for i in range(d)])


class Ctx:
    pass


def setup(tt, S, seed):
    N, R = [int(v) for v in S["N"]], [int(v) for v in S["R"]]
    d = len(N)
    gen = torch.Generator().manual_seed(40 + seed + 3 * sum(N) + d)
    dt = torch.float64
    c = Ctx()
    c.N, c.d = N, d
    c.x = [torch.randn(R[k], N[k], R[k + 1], generator=gen, dtype=dt) for k in range(d)]
    Ry = [1] + [2] * (d - 1) + [1]
    c.y = [torch.randn(Ry[k], N[k], Ry[k + 1], generator=gen, dtype=dt) for k in range(d)]
    Ra = [1] + [2] * (d - 1) + [1]
    c.A = [torch.randn(Ra[k], N[k], N[k], Ra[k + 1], generator=gen, dtype=dt) * 0.5 for k in range(d)]
    if S.get("scale", "unit") == "tiny":            # all leaves of magnitude 1e-8: derivatives of norms stay O(1), values are tiny
        c.x = [t * 1e-8 if k == 0 else t for k, t in enumerate(c.x)]
        c.y = [t * 1e-8 if k == 0 else t for k, t in enumerate(c.y)]
    c.Q = torch.randn(N[0], N[0], generator=gen, dtype=dt)
    Rw = [1] + [2] * (d - 2) + [1]
    c.w = [torch.randn(Rw[k], N[k + 1], Rw[k + 1], generator=gen, dtype=dt) for k in range(d - 1)] if d >= 2 else None
    c.gen = gen
    return c


def eval_tt(tt, c, X, Y, body, head, red, W=None):
    A = tt.TT([a.clone() for a in c.A])

    def B(t):
        o = t["op"]
        if o == "x": return X
        if o == "y": return Y
        if o == "neg": return -B(t["a"])
        if o == "scal": return 2.5 * B(t["a"])
        if o == "sscal":
            u = B(t["a"])
            return u * u.sum()
        if o == "adds": return B(t["a"]) + 1.5
        if o == "matvec": return A @ B(t["a"])
        if o == "vecmat": return B(t["a"]) @ A
        if o == "mprod": return B(t["a"]).mprod(c.Q, 0)
        a, b = B(t["a"]), B(t["b"])
        return a + b if o == "add" else (a - b if o == "sub" else a * b)
    T = B(body)
    d = c.d
    if head == "slice":
        T = T[(1,) + (slice(None),) * (d - 1)] if d > 1 else T[(slice(1, None),)]
    elif head == "ell":
        T = T[...]
    elif head == "rslice":
        T = T[(slice(0, c.N[0] - 1), Ellipsis)]
    elif head == "cat":
        T = tt.cat((T, Y), 0)
    elif head == "pad":
        T = tt.pad(T, ((0, 1),), 0.0)
    elif head == "kron":
        T = T ** Y
    elif head == "kronl":
        T = tt.kron(tt.kron(None, T), Y)
    elif head == "kronr":
        T = tt.kron(T, None)
    elif head == "diag":
        T = tt.diag(T)
    elif head == "full":
        T = T.full()
    elif head in ("bcast", "bmul", "bsub"):
        w_ = W if W is not None else tt.TT([q.clone() for q in c.w])
        T = T + w_ if head == "bcast" else (T * w_ if head == "bmul" else T - w_)
    return reduce_tt(tt, c, T, head, red, A)


def result_shape(c, head):
    N, d = c.N, c.d
    if head in ("id", "full", "bcast", "bmul", "bsub", "ell", "kronr"): return list(N)
    if head == "rslice": return [N[0] - 1] + list(N[1:])
    if head == "slice": return list(N[1:]) if d > 1 else [N[0] - 1]
    if head == "cat": return [2 * N[0]] + list(N[1:])
    if head == "pad": return list(N[:-1]) + [N[-1] + 1]
    if head in ("kron", "kronl"): return list(N) + list(N)
    if head == "diag": return list(N) + list(N)
    raise ValueError(head)


def constants(c, head):
    """constant operands of the reducers, generated deterministically from the shape"""
    sh = result_shape(c, head)
    g = torch.Generator().manual_seed(99 + sum(sh) + len(sh))
    G = torch.randn(sh, generator=g, dtype=torch.float64)
    Rz = [1] + [2] * (len(sh) - 1) + [1]
    z = [torch.randn(Rz[k], sh[k], Rz[k + 1], generator=g, dtype=torch.float64) for k in range(len(sh))]
    K = 3
    rows = torch.stack([torch.tensor([(k * 7 + p * 3) % sh[p] for p in range(len(sh))]) for k in range(K)]).to(torch.int64)
    item = tuple((p + 1) % sh[p] for p in range(len(sh)))
    return G, z, rows, item


def reduce_tt(tt, c, T, head, red, A):
    G, z, rows, item = constants(c, head)
    if red == "wsum":
        F = T if torch.is_tensor(T) else T.full()
        return (F * G).sum()
    if red == "sum": return T.sum()
    if red == "sum0":
        S = T.sum(0)
        return S.sum() if isinstance(S, tt.TT) else S
    if red == "dot": return tt.dot(T, tt.TT([q.clone() for q in z]))
    if red == "norm": return T.norm()
    if red == "norm2": return T.norm(True)
    if red == "item": return T[item]
    if red == "mask": return T.apply_mask(rows).sum()
    if red == "bilinear": return tt.bilinear_form(T, A, tt.TT([q.clone() for q in z]))
    raise ValueError(red)


def eval_dense(c, xl, yl, body, head, red, wl=None):
    N, d = c.N, c.d
    Xd, Yd = contract(xl), contract(yl)
    Ad = dense_ttm(c.A)
    n = int(np.prod(N))

    def B(t):
        o = t["op"]
        if o == "x": return Xd
        if o == "y": return Yd
        if o == "neg": return -B(t["a"])
        if o == "scal": return 2.5 * B(t["a"])
        if o == "sscal":
            u = B(t["a"])
            return u * u.sum()
        if o == "adds": return B(t["a"]) + 1.5
        if o == "matvec": return (Ad.reshape(n, n) @ B(t["a"]).reshape(-1)).reshape(N)
        if o == "vecmat": return (B(t["a"]).reshape(-1) @ Ad.reshape(n, n)).reshape(N)
        if o == "mprod": return torch.tensordot(c.Q, B(t["a"]), dims=([1], [0]))
        a, b = B(t["a"]), B(t["b"])
        return a + b if o == "add" else (a - b if o == "sub" else a * b)
    T = B(body)
    if head == "slice":
        T = T[1] if d > 1 else T[1:]
    elif head == "rslice":
        T = T[0:N[0] - 1]
    elif head == "cat":
        T = torch.cat((T, Yd), 0)
    elif head == "pad":
        T = torch.nn.functional.pad(T, (0, 1))
    elif head in ("kron", "kronl"):
        T = torch.tensordot(T, Yd, dims=0)
    elif head == "diag":
        sh = list(N)
        E = torch.zeros(sh + sh, dtype=T.dtype)
        idx = torch.cartesian_prod(*[torch.arange(k) for k in sh]).reshape(-1, d)
        full_idx = tuple(idx[:, j] for j in range(d)) * 2
        E = E.index_put(full_idx, T.reshape(-1))
        T = E
    if head in ("bcast", "bmul", "bsub"):
        wd_ = contract(wl if wl is not None else c.w)
        T = T + wd_ if head == "bcast" else (T * wd_ if head == "bmul" else T - wd_)
    G, z, rows, item = constants(c, head)
    zd = contract(z)
    if red == "wsum": return (T * G).sum()
    if red in ("sum", "sum0"): return T.sum()
    if red == "dot": return (T * zd).sum()
    if red == "norm": return torch.sqrt((T * T).sum())
    if red == "norm2": return (T * T).sum()
    if red == "item": return T[item]
    if red == "mask": return T[tuple(rows[:, j] for j in range(rows.shape[1]))].sum()
    if red == "bilinear": return T.reshape(-1) @ (Ad.reshape(n, n) @ zd.reshape(-1))
    raise ValueError(red)


def handler(st, opts):
    import torchtt as tt
    S, body, head, red, track = st["s"], st["body"], st["head"], st["red"], st["track"]
    seed = opts.get("seed", 0)
    c = setup(tt, S, seed)
    if head in ("slice", "rslice") and c.N[0] < 2:
        return None
    problems, stats = [], {"behaviours": 1, "calls": 1}
    key = {"op": "grad", "head": head, "red": red, "track": track, "body": body["op"], "d": c.d}

    def P(cls, msg):
        kk = dict(key); kk["cls"] = cls
        return {"prop": "C15", "cls": cls, "op": "grad", "key": kk, "msg": "program %s(%s(%s)) N=%s tracked=%s: %s" % (red, head, body, c.N, track, msg),
                "replay": {"engine": "vf.exprrun", "state": st}}
    xl = [t.clone() for t in c.x]
    yl = [t.clone() for t in c.y]
    X, Y = tt.TT(xl), tt.TT(yl)
    wl = [t.clone() for t in c.w] if c.w is not None else None
    W = tt.TT(wl) if wl is not None else None
    try:
        if track == "x": tt.grad.watch(X); leaves = list(xl)
        elif track == "x0": tt.grad.watch(X, [0]); leaves = [xl[0]]
        elif track == "xl": tt.grad.watch(X, [len(xl) - 1]); leaves = [xl[-1]]
        elif track == "xr": tt.grad.watch(X, [len(xl) - 1, 0]); leaves = [xl[-1], xl[0]]
        elif track == "xw2": tt.grad.watch(X, [0]); tt.grad.watch(X, [len(xl) - 1]); leaves = [xl[0], xl[-1]]
        elif track == "y": tt.grad.watch(Y); leaves = list(yl)
        elif track == "wx": tt.grad.watch_list([W, X]); leaves = list(wl) + list(xl)
        else: tt.grad.watch_list([X, Y]); leaves = list(xl) + list(yl)
        val = eval_tt(tt, c, X, Y, body, head, red, W)
        if not torch.is_tensor(val) or val.numel() != 1:
            return {"problems": [P("kind", "the program did not produce a scalar tensor (%s)" % type(val).__name__)], "stats": stats}
        if not val.requires_grad:
            # no edge to the tracked cores: legitimate only if the program is constant in them (every dense derivative is exactly
            # zero, e.g. (x - x) * sum(x - x), where the zero-scalar shortcut of * returns a constant zero tensor)
            xd0 = [t.detach().clone().requires_grad_(True) for t in c.x]
            yd0 = [t.detach().clone().requires_grad_(True) for t in c.y]
            wd0 = [t.detach().clone().requires_grad_(True) for t in c.w] if c.w is not None else None
            v0 = eval_dense(c, xd0, yd0, body, head, red, wd0)
            dl0 = {"x": xd0, "x0": [xd0[0]], "xl": [xd0[-1]], "xr": [xd0[-1], xd0[0]], "xw2": [xd0[0], xd0[-1]], "y": yd0, "xy": xd0 + yd0, "wx": (wd0 or []) + xd0}[track]
            r0 = torch.autograd.grad(v0, dl0, allow_unused=True) if v0.requires_grad else [None] * len(dl0)
            if all(g is None or not bool(g.abs().max() > 0) for g in r0) and abs(val.item() - v0.item()) <= 1e-9 * max(1.0, abs(v0.item())):
                return {"problems": [], "stats": {"behaviours": 1, "calls": 1, "constant_program": 1}}
            problems.append(P("graph-cut", "the value does not depend on the tracked cores in the autograd graph"))
            return {"problems": problems, "stats": stats}
        if track == "x": got = tt.grad.grad(val, X)
        elif track == "x0": got = tt.grad.grad(val, X, [0])
        elif track == "xl": got = tt.grad.grad(val, X, [len(xl) - 1])
        elif track == "xr": got = tt.grad.grad(val, X, [len(xl) - 1, 0])
        elif track == "xw2": got = tt.grad.grad(val, X, [0, len(xl) - 1])
        elif track == "y": got = tt.grad.grad(val, Y)
        elif track in ("wx", "xy"):
            tens = [W, X] if track == "wx" else [X, Y]
            if (len(str(body)) + len(head)) % 2 == 0:
                got = tt.grad.grad_list(val, tens)
            else:                       # the documented nested form: one list per tensor
                nested = tt.grad.grad_list(val, tens, all_in_one=False)
                if not isinstance(nested, list) or len(nested) != 2 or [len(v) for v in nested] != [len(t.cores) for t in tens]:
                    return {"problems": [P("shape", "grad_list(all_in_one=False) did not return one list of core gradients per tensor")], "stats": stats}
                got = list(nested[0]) + list(nested[1])
    except Exception as ex:  # noqa
        return {"problems": [P("exception", "raised %s: %s" % (type(ex).__name__, str(ex)[:200]))], "stats": stats}
    # dense reference on copies of the same leaves
    xd = [t.detach().clone().requires_grad_(True) for t in c.x]
    yd = [t.detach().clone().requires_grad_(True) for t in c.y]
    wd = [t.detach().clone().requires_grad_(True) for t in c.w] if c.w is not None else None
    vd = eval_dense(c, xd, yd, body, head, red, wd)
    if red == "norm" and vd.item() == 0.0:
        # the program is identically zero (t - t somewhere inside): the norm is not differentiable there and its floating-point
        # value is the square root of cancellation noise - outside the property's claim (the exclusion of spec/Expr.tla, decided
        # on the dense program so that it also covers zeros buried deeper in the body)
        return {"problems": [], "stats": {"behaviours": 1, "calls": 1, "skipped_norm_of_zero": 1}}
    dl = {"x": xd, "x0": [xd[0]], "xl": [xd[-1]], "xr": [xd[-1], xd[0]], "xw2": [xd[0], xd[-1]], "y": yd, "xy": xd + yd, "wx": (wd or []) + xd}[track]
    ref = torch.autograd.grad(vd, dl, allow_unused=True)
    vscale = max(abs(vd.item()), 1e-300) if S.get("scale", "unit") == "tiny" else max(1.0, abs(vd.item()))
    if abs(val.item() - vd.item()) > 1e-9 * vscale + 1e-20:        # (1e-20: cancellation noise floor for leaves of magnitude 1e-8)
        problems.append(P("value", "value %.12g differs from the dense program's %.12g" % (val.item(), vd.item())))
    if len(got) != len(leaves):
        problems.append(P("shape", "grad returned %d tensors for %d tracked cores" % (len(got), len(leaves))))
    for k, (g, r, lf) in enumerate(zip(got, ref, leaves)):
        r = torch.zeros_like(lf) if r is None else r
        if g is None:
            if r.abs().max().item() > 1e-12:
                problems.append(P("missing", "gradient of tracked core %d is None although the value depends on it" % k))
            continue
        if tuple(g.shape) != tuple(lf.shape):
            problems.append(P("shape", "gradient %d has shape %s, the core has %s" % (k, tuple(g.shape), tuple(lf.shape))))
            continue
        sc = max(r.abs().max().item(), g.abs().max().item(), 1e-300) if S.get("scale", "unit") == "tiny" else max(1.0, r.abs().max().item())
        if (g - r).abs().max().item() > RTOL * sc + 1e-20:
            problems.append(P("gradient", "gradient w.r.t. core %d differs from the dense derivative: max |diff| %.3g (scale %.3g)" % (
                k, (g - r).abs().max().item(), sc)))
            break
    # central finite differences on two entries of the first tracked core (independent of autograd)
    if not problems and opts.get("fd", True) and S.get("scale", "unit") == "unit":
        lf = leaves[0]
        flat = lf.detach().reshape(-1)
        for e in (0, flat.numel() - 1):
            h = 1e-6
            vals = []
            for sgn in (+1, -1):
                xl2 = [t.detach().clone() for t in xl]; yl2 = [t.detach().clone() for t in yl]
                wl2 = [t.detach().clone() for t in wl] if wl is not None else None
                tgt = (wl2 if track == "wx" else (xl2 if track in ("x", "x0", "xy", "xw2") else yl2))[0] if track not in ("xl", "xr") else xl2[-1]
                tgt.reshape(-1)[e] += sgn * h
                with torch.no_grad():
                    vals.append(eval_tt(tt, c, tt.TT(xl2), tt.TT(yl2), body, head, red, tt.TT(wl2) if wl2 is not None else None).item())
            fd = (vals[0] - vals[1]) / (2 * h)
            gv = got[0].reshape(-1)[e].item() if got[0] is not None else 0.0
            # (second-order central differences on a polynomial of degree up to 8: truncation error h^2 f''' - a coarse
            #  cross-check of the autograd oracle, not a precision test)
            if abs(fd - gv) > 2e-3 * max(1.0, abs(gv), abs(fd)):
                problems.append(P("finite-diff", "d/d(core0[%d]) = %.8g by autograd, %.8g by central differences" % (e, gv, fd)))
    stats["nontrivial"] = 1 if body["op"] not in ("x", "y") else 0
    return {"problems": problems, "stats": stats, "sample": {"structure": S, "body": body, "head": head, "reducer": red, "tracked": track}}


def rerun(payload):
    r = handler(payload["state"], {})
    return r["problems"] if r else []
