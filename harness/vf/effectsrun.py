"""Replay of spec/Effects.tla (property C06): one call per (table entry, operand structure, guess mode); every TT
argument is snapshotted before the call and compared afterwards (cores bitwise, N, M, R, version counters, well-
formedness), then re-used (w + w must still equal 2 w: 'a result obtained earlier keeps its value')."""
import os, tempfile, shutil, math
import numpy as np
import torch

from . import project, algrun
from .g3run import rand_tt, dense_op
from . import g3solve

INPLACE = {"set_core", "reduce_dims", "watch", "unwatch"}


def handler(st, opts):
    import torchtt as tt
    e, shape, gmode = st["entry"], [int(v) for v in st["shape"]], st["guess"]
    op = e["op"]
    d = len(shape)
    seed = opts.get("seed", 0)
    gen = torch.Generator().manual_seed(123 + seed + 7 * d + sum(shape))
    torch.manual_seed(1 + seed)
    dt = torch.float64
    N = shape
    M = [n + 1 for n in N]
    problems, stats = [], {"behaviours": 1, "calls": 0, "nontrivial": 1, "op:" + op: 1}

    def P(cls, msg, extra=None, prop="C06"):
        kk = {"op": op, "cls": cls, "guess": gmode}
        kk.update(extra or {})
        return {"prop": prop, "cls": cls, "op": op, "key": kk, "msg": "%s on shape %s (guess %s): %s" % (op, shape, gmode, msg),
                "replay": {"engine": "vf.effectsrun", "state": st}}
    # operands by role: x, y tensors of shape N with reducible ranks (so that orthogonalisation changes rank lists),
    # p positive tensor (divisor), A rectangular operator M x N, B operator N x K, S square operator, q power-of-two tensor
    def over(n_terms, modes, r):
        t = rand_tt(tt, modes, r, gen, dt)
        out = t
        for _ in range(n_terms - 1):
            out = out + rand_tt(tt, modes, r, gen, dt)
        return out
    roles = {}
    def get(role):
        if role in roles:
            return roles[role]
        minimal = op in ("projection", "projection_m", "gradient")      # the manifold routines need minimal ranks
        if role == "x": v = rand_tt(tt, N, 2, gen, dt) if minimal else over(3, N, 2)
        elif role == "y": v = over(2, N, 2)
        elif role == "p":
            z = rand_tt(tt, N, 1, gen, dt, scale=0.7); v = (1.0 + z * z)
        elif role == "A": v = rand_tt(tt, list(zip(M, N)), 2, gen, dt) if minimal else over(2, list(zip(M, N)), 2)
        elif role == "B": v = over(2, list(zip(N, [n + 2 for n in N])), 2) if op == "amen_mm" or op == "matmat" else over(2, list(zip(M, N)), 2)
        elif role == "S":
            v = (tt.eye(N, dtype=dt) * (4.0 * d) + rand_tt(tt, list(zip(N, N)), 2, gen, dt, scale=0.3))
        elif role == "q": v = over(2, [4, 8, 2], 2)
        elif role == "Q": v = over(2, [(4, 4), (2, 2)], 2)
        roles[role] = v
        return v
    args = [get(r) for r in e["args"]]
    # optional initial guess
    g = None
    if e["guess"] and gmode != "none":
        gshape = {"fast_matvec": M, "amen_mv": M, "amen_mm": list(zip(M, [n + 2 for n in N]))}.get(op, N)
        if gmode == "alias" and op in ("dmrg_hadamard", "elementwise_divide", "interp_uni"):
            g = args[0]
        elif gmode == "alias":
            return None
        else:
            g = rand_tt(tt, gshape, 3, gen, dt) + rand_tt(tt, gshape, 3, gen, dt)
    objs = list(args) + ([g] if g is not None and all(g is not a for a in args) else [])
    names = list(e["args"]) + (["guess"] if len(objs) > len(args) else [])
    x = args[0] if args else None
    y = args[1] if len(args) > 1 else None

    def f_cross(I):
        return 1.0 / (2.0 + I.sum(1).to(dt))

    def thunk():
        if op == "round": return x.round(1e-10)
        if op == "round_rmax": return x.round(1e-10, 2)
        if op == "reshape": return tt.reshape(x, [int(np.prod(N[:-1])), N[-1]] if d > 1 else N)
        if op == "reshape_m": return tt.reshape(x, [(int(np.prod(M[:-1])), int(np.prod(N[:-1]))), (M[-1], N[-1])])
        if op in ("permute", "permute_m"): return tt.permute(x, list(range(d - 1, -1, -1)), 1e-10)
        if op in ("to_qtt", "to_qtt_m"): return x.to_qtt()
        if op == "qtt_to_tens": return x.to_qtt().qtt_to_tens([4, 8, 2])
        if op == "fast_matvec": return x.fast_matvec(y, initial=g, eps=1e-8)
        if op == "dmrg_hadamard": return tt.dmrg_hadamard(x, y, z0=g, eps=1e-8)
        if op == "amen_mv": return tt.amen_mv(x, y, x0=g, eps=1e-8)
        if op == "amen_mm": return tt.amen_mm(x, y, X0=g, eps=1e-8)
        if op == "amen_solve": return tt.solvers.amen_solve(x, (x @ y).round(1e-12), x0=g, eps=1e-6, verbose=False)
        if op == "div": return x / y
        if op == "rdiv": return 2.0 / x
        if op == "elementwise_divide": return tt.elementwise_divide(x, y, eps=1e-8, starting_tensor=g)
        if op == "dmrg_cross": return tt.interpolate.dmrg_cross(f_cross, N, eps=1e-6, x_start=g)
        if op == "interp_uni": return tt.interpolate.function_interpolate(lambda v: 1 / (3 + v * v), x, eps=1e-6, start_tens=g)
        if op == "interp_multi":
            xs = tt.meshgrid([torch.linspace(0, 1, n, dtype=dt) for n in N])
            return tt.interpolate.function_interpolate(lambda E: 1 / (2 + E.sum(1)), xs, eps=1e-6, start_tens=g)
        if op in ("projection", "projection_m"): return tt.manifold.riemannian_projection(x, y)
        if op == "gradient": return tt.manifold.riemannian_gradient(x, lambda T: (T * T).sum())
        if op == "dot": return tt.dot(x, y)
        if op == "dot_axes": return tt.dot(x, tt.TT([torch.ones(1, N[0], 1, dtype=dt)]), [0])
        if op == "bilinear": return tt.bilinear_form(x, args[1], args[2])
        if op == "cat": return tt.cat((x, y), 0)
        if op in ("pad", "pad_m"): return tt.pad(x, tuple((1, 1) for _ in range(d)), 2.0)
        if op in ("diag", "diag_m"): return tt.diag(x)
        if op == "kron": return x ** y
        if op == "mprod": return x.mprod(torch.randn(2, N[0], generator=gen, dtype=dt), 0)
        if op == "apply_mask": return x.apply_mask(torch.zeros(2, d, dtype=torch.int64))
        if op == "save_load":
            dd = tempfile.mkdtemp(dir=os.environ.get("VERIF_OUT") or None)
            try:
                tt.save(x, os.path.join(dd, "x.TT")); return tt.load(os.path.join(dd, "x.TT"))
            finally:
                shutil.rmtree(dd, ignore_errors=True)
        if op in ("norm", "norm_m"): return x.norm()
        if op == "sum": return x.sum()
        if op == "sum_axes": return x.sum(0)
        if op == "index": return x[(0,) + (slice(None),) * (d - 1)]
        if op == "index_m": return x[(0,) + (slice(None),) * (d - 1) + (0,) + (slice(None),) * (d - 1)]
        if op == "full": return x.full()
        if op == "numpy": return x.numpy()
        if op == "repr": return repr(x)
        if op == "numel": return tt.numel(x)
        if op == "clone": return x.clone()
        if op == "detach": return x.detach()
        if op == "to": return x.to(dtype=torch.float32)
        if op == "cpu": return x.cpu()
        if op == "conj": return x.conj()
        if op == "t": return x.t()
        if op == "to_ttm": return x.to_ttm()
        if op == "add": return x + y
        if op == "sub": return x - y
        if op == "mul": return x * y
        if op == "matvec": return x @ y
        if op == "matmat": return x @ y
        if op == "div_s": return x / 3.0
        if op == "mul_s": return x * 3.0
        if op == "rsub_s": return 1.0 - x
        if op == "neg": return -x
        if op == "mul_s_m": return x * 2.5
        if op == "rmul_s_m": return 2.5 * x
        if op == "div_s_m": return x / 4.0
        if op == "add_s_m": return x + 1.5
        if op == "rsub_s_m": return 1.0 - x
        if op == "neg_m": return -x
        if op == "add_m": return x + y
        if op == "mul_m": return x * y
        if op == "radd_s": return 1.5 + x
        if op == "rmul_s": return 2.5 * x
        if op == "sub_s": return x - 1.5
        if op in ("sub_0", "sub_0_m"): return x - 0
        if op in ("rsub_0", "rsub_0_m"): return 0 - x
        if op == "add_0": return x + 0
        if op == "radd_0": return 0.0 + x
        if op in ("mul_1", "mul_1_m"): return x * 1
        if op == "rmul_1": return 1.0 * x
        if op in ("div_1", "div_1_m"): return x / 1
        if op == "mul_0": return x * 0
        if op == "reshape_id": return tt.reshape(x, list(N))
        if op == "permute_id": return tt.permute(x, list(range(d)))
        if op == "pad_none": return tt.pad(x, tuple((0, 0) for _ in range(d)))
        if op == "index_all": return x[(slice(None),) * d]
        if op == "index_ell": return x[...]
        if op == "sum_none": return x.sum([])
        if op == "pos": return +x
        if op == "kron_none": return tt.kron(x, None)
        if op == "cat_one": return tt.cat((x,), 0)
        if op == "mprod_none": return x.mprod([], [])
        if op == "to_same": return x.to(dtype=dt)
        if op == "t_t": return x.t().t()
        if op == "conj_real": return x.conj()
        if op == "layer":
            layer = tt.nn.LinearLayerTT(N, M, [1] + [2] * (d - 1) + [1], dtype=dt)
            return layer(torch.randn([2] + N, generator=gen, dtype=dt))
        if op == "set_core": return x.set_core(0, x.cores[0].clone() * 2)
        if op == "reduce_dims": return x.reduce_dims()
        if op == "watch": return tt.grad.watch(x)
        if op == "unwatch": return tt.grad.unwatch(x)
        raise ValueError("no binding for table entry %r" % op)
    ncalls = 2 if gmode == "reused" else 1
    for it in range(ncalls):
        snap = algrun.snapshot(objs)
        dens = [project.dense(o.cores).clone() for o in objs]
        vers = [project.versions(o.cores) for o in objs]
        stats["calls"] += 1
        try:
            out = thunk()
        except Exception as ex:  # noqa   whether the call succeeds is the business of the property owning the routine
            stats["raised:%s:%s" % (op, type(ex).__name__)] = stats.get("raised:%s:%s" % (op, type(ex).__name__), 0) + 1
            out = None
        allowed = {i - 1 for i in (e["mut"] or [])} if op in INPLACE else set()
        for n, why in algrun.changed(objs, snap):
            if n in allowed:
                continue
            problems.append(P("operand-changed", "call %d: argument '%s' changed: %s" % (it + 1, names[n], "; ".join(why)), {"arg": names[n]}))
        for n, o in enumerate(objs):
            if n in allowed:
                continue
            wf = project.wf_problems(o)
            if wf:
                problems.append(P("ill-formed", "call %d: argument '%s' no longer self-consistent: %s" % (it + 1, names[n], wf), {"arg": names[n]}, "C05"))
                continue
            if project.versions(o.cores) != vers[n]:
                problems.append(P("operand-written", "call %d: cores of argument '%s' were written in place (version counters %s -> %s)" % (
                    it + 1, names[n], vers[n], project.versions(o.cores)), {"arg": names[n]}))
            # re-use: the argument must still behave as the tensor it was
            try:
                two = o + o
                ref = 2 * dens[n]
                if project.dense(two.cores).shape != ref.shape or (project.dense(two.cores) - ref).abs().max().item() > 1e-9 * max(1.0, ref.abs().max().item()):
                    problems.append(P("stale-use", "call %d: after the call, %s + %s no longer equals twice its earlier value" % (it + 1, names[n], names[n]), {"arg": names[n]}))
            except Exception as ex:  # noqa
                problems.append(P("stale-use", "call %d: after the call, %s + %s raises %s: %s" % (it + 1, names[n], names[n], type(ex).__name__, str(ex)[:120]), {"arg": names[n]}))
    # independence of result and operands under the documented in-place operations: set_core on the result must change
    # nothing but the result, set_core on an operand nothing but that operand ("a result obtained earlier keeps its value")
    if isinstance(out, tt.TT) and len(out.cores) > 0 and op not in INPLACE and not problems:
        try:
            snap = algrun.snapshot(objs)
            ref0 = project.dense(out.cores).clone()
            c0 = out.cores[0]
            out.set_core(0, (c0 * 2 + 1).detach().clone())
            stats["calls"] += 1
            # the same call again: what it returns does not depend on what was done to the object returned before
            if not e["guess"] and op not in ("dmrg_cross", "interp_uni", "interp_multi", "gradient", "layer", "amen_solve", "div", "rdiv", "mprod"):      # (mprod: the thunk draws a new factor matrix per call)
                again = thunk()
                if isinstance(again, tt.TT):
                    if again is out:
                        problems.append(P("aliased-result", "a second call returned the very object returned (and since modified) before"))
                    else:
                        da = project.dense(again.cores)
                        if da.shape != ref0.shape or (da - ref0).abs().max().item() > 1e-9 * max(1.0, ref0.abs().max().item()):
                            problems.append(P("aliased-result", "a second call returns another value after set_core on the object returned by the first call"))
            for n, why in algrun.changed(objs, snap):
                problems.append(P("aliased-result", "set_core on the result changed argument '%s': %s" % (names[n], "; ".join(why)), {"arg": names[n]}))
            ref = project.dense(out.cores).clone()
            for n, o in enumerate(objs):
                if o is out:
                    continue
                c0 = o.cores[0]
                o.set_core(0, (c0 * 2 + 1).detach().clone())
                now = project.dense(out.cores)
                if now.shape != ref.shape or not torch.equal(now, ref):
                    problems.append(P("aliased-result", "set_core on argument '%s' changed the result obtained earlier" % names[n], {"arg": names[n]}))
                    break
        except Exception as ex:  # noqa
            problems.append(P("aliased-result", "set_core on result / argument after the call raised %s: %s" % (type(ex).__name__, str(ex)[:120])))
    return {"problems": problems, "stats": stats, "sample": {"entry": {"op": op, "args": list(e["args"]), "mutates": sorted(e["mut"]) if e["mut"] else []},
                                                             "shape": shape, "guess": gmode}}


def rerun(payload):
    r = handler(payload["state"], {})
    return r["problems"] if r else []
