"""Running TLC and reading what it produced (state dumps, summary counts, coverage)."""
import os, re, subprocess, time, shutil, hashlib

VERIF = os.path.dirname(os.path.dirname(os.path.dirname(os.path.abspath(__file__))))
SPEC = os.path.join(VERIF, "spec")
OUT = os.environ.get("VERIF_OUT") or os.path.join(VERIF, "out")
CP = "/opt/veriftools/tla/tla2tools.jar:/opt/veriftools/tla/CommunityModules-deps.jar"
JAVA_OPTS = ["-Xms1g", "-Xmx12g", "-XX:+UseSerialGC"]


class TLCFailure(Exception):
    """TLC itself failed (parse error, crash): machinery failure, never a property verdict."""


def run_tlc(module, cfg=None, tag=None, dump=False, workers=8, simulate=None, depth=None,
            seed=None, timeout=3600, coverage=False, env=None, extra=(), deque=False):
    """Run TLC on spec/<module>.tla with spec/<cfg>.cfg.  Returns a dict with the summary."""
    cfg = cfg or module
    tag = tag or cfg
    work = os.path.join(OUT, "tlc", tag)
    shutil.rmtree(work, ignore_errors=True)
    os.makedirs(work, exist_ok=True)
    cmd = ["java"] + JAVA_OPTS
    if deque:
        cmd.append("-Dtlc2.tool.queue.IStateQueue=StateDeque")
    cmd += ["-cp", CP, "tlc2.TLC", "-workers", str(workers), "-metadir", os.path.join(work, "meta"),
            "-noGenerateSpecTE", "-config", os.path.join(SPEC, cfg + ".cfg")]
    dumpfile = None
    if dump:
        dumpfile = os.path.join(work, "states")
        cmd += ["-dump", dumpfile]
        dumpfile += ".dump"
    if simulate is not None:
        cmd += ["-simulate", simulate]
    if depth is not None:
        cmd += ["-depth", str(depth)]
    if seed is not None:
        cmd += ["-seed", str(seed)]
    if coverage:
        cmd += ["-coverage", "1"]
    cmd += list(extra)
    cmd.append(os.path.join(SPEC, module + ".tla"))
    t0 = time.time()
    e = dict(os.environ)
    if env:
        e.update(env)
    p = subprocess.run(cmd, cwd=work, stdout=subprocess.PIPE, stderr=subprocess.STDOUT, text=True,
                       timeout=timeout, env=e)
    out = p.stdout
    with open(os.path.join(work, "tlc.log"), "w") as f:
        f.write(out)
    res = {"cmd": " ".join(cmd), "wall_s": round(time.time() - t0, 2), "rc": p.returncode, "log": os.path.join(work, "tlc.log"),
           "dump": dumpfile, "work": work, "out": out}
    m = re.search(r"(\d[\d,]*) states generated, (\d[\d,]*) distinct states found", out)
    if m:
        res["generated"] = int(m.group(1).replace(",", ""))
        res["distinct"] = int(m.group(2).replace(",", ""))
    m = re.search(r"depth of the complete state graph search is (\d+)", out)
    if m:
        res["depth"] = int(m.group(1))
    res["invariant_violated"] = re.findall(r"Invariant (\S+) is violated", out)
    res["action_property_violated"] = re.findall(r"Action property (\S+) is violated", out)
    res["no_error"] = "No error has been found" in out
    res["postcondition_false"] = bool(re.search(r"Postcondition \S+ .*is false", out))
    if p.returncode != 0 and not res["invariant_violated"] and not res["action_property_violated"] \
            and "Deadlock reached" not in out and "is violated" not in out and not res["postcondition_false"]:
        raise TLCFailure("TLC failed (rc=%d) on %s/%s; see %s\n%s" % (p.returncode, module, cfg, res["log"], out[-3000:]))
    return res


def sany(module):
    cmd = ["java", "-cp", CP, "tla2sany.SANY", os.path.join(SPEC, module + ".tla")]
    p = subprocess.run(cmd, cwd=SPEC, stdout=subprocess.PIPE, stderr=subprocess.STDOUT, text=True)
    ok = p.returncode == 0 and "Semantic errors" not in p.stdout and "Parsing or semantic analysis failed" not in p.stdout \
        and "*** Errors" not in p.stdout
    return ok, p.stdout


# ------------------------------------------------------------------ dump parsing
_key = re.compile(r'([A-Za-z_][A-Za-z_0-9]*) :')


def tla_to_py(txt):
    """TLA+ value text (records, tuples, ints, strings, booleans) -> python object.
    Records become dicts, tuples become lists.  Sets and non-record functions are not used in dumps."""
    s = txt.replace("<<", "\x01").replace(">>", "\x02").replace("[", "{").replace("]", "}")
    s = s.replace("\x01", "[").replace("\x02", "]").replace("|->", ":")
    s = _key.sub(r'"\1":', s)
    s = s.replace("TRUE", "True").replace("FALSE", "False")
    return eval(s, {"__builtins__": {}}, {})


def split_dump(path):
    """The texts of all states of a TLC -dump file (small dumps)."""
    return list(iter_dump(path))


def iter_dump(path):
    """Stream the states of a TLC -dump file (dumps of millions of states do not fit comfortably in memory)."""
    cur = []
    with open(path) as f:
        for line in f:
            if line.startswith("State ") and line.rstrip().endswith(":") and line[6:-2].strip().isdigit():
                if cur:
                    t = "".join(cur)
                    if t.strip():
                        yield t
                cur = []
            else:
                cur.append(line)
    if cur:
        t = "".join(cur)
        if t.strip():
            yield t


def split_sim_traces(prefix_dir, prefix="tr"):
    """All states of all behaviours written by `-simulate file=<dir>/<prefix>,num=N` (one text per state)."""
    import glob
    out = []
    for path in sorted(glob.glob(os.path.join(prefix_dir, prefix + "_*"))):
        with open(path) as f:
            data = f.read()
        data = re.sub(r"^=+\s*$", "", data, flags=re.M)
        parts = re.split(r"^STATE_\d+ ==\s*\n", data, flags=re.M)[1:]
        for p in parts:
            p = re.sub(r"^\\\*.*$", "", p, flags=re.M)
            if p.strip():
                out.append(p)
    return out


def parse_state(txt):
    st = {}
    for chunk in re.split(r"^/\\ ", txt, flags=re.M):
        chunk = chunk.strip()
        if not chunk:
            continue
        name, val = chunk.split(" = ", 1)
        st[name.strip()] = tla_to_py(val)
    return st


def spec_digest(*modules):
    h = hashlib.sha256()
    for m in modules:
        for ext in (".tla", ".cfg"):
            p = os.path.join(SPEC, m + ext)
            if os.path.exists(p):
                h.update(open(p, "rb").read())
    return h.hexdigest()[:16]
