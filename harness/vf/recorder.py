"""Outside recorder of the public torchtt API (no change to /repo needed): class-level wrappers on torchtt.TT
(including dunder methods and __init__) and wrappers on the public module functions.  One event is produced per
*outermost* public call, after it returned or raised (the linearisation point of a sequential library).

Event = {"op", "args": [object serials], "ints": [abstracted integer arguments], "res": serial | 0, "exc": "" | class,
         "touched": [projection of every live object whose projection differs from the last one logged, plus result]}
Projection = {"id", "k", "N", "M", "R", "wf", "fp"} re-derived from obj.cores (fp = 30-bit checksum of the core bytes),
wf = cores agree with the reported N / M / R / shape / is_ttm."""
import functools, weakref, zlib
import numpy as np

from . import project

TT_METHODS = ["__add__", "__radd__", "__sub__", "__rsub__", "__mul__", "__rmul__", "__matmul__", "__truediv__", "__rtruediv__",
              "__neg__", "__pos__", "__pow__", "__rpow__", "__getitem__", "t", "norm", "sum", "to_ttm", "reduce_dims", "round", "to_qtt",
              "qtt_to_tens", "mprod", "conj", "full", "numpy", "clone", "detach", "cpu", "to", "set_core", "fast_matvec", "apply_mask"]
MODULE_FUNCS = {"torchtt": ["eye", "zeros", "kron", "ones", "random", "randn", "reshape", "meshgrid", "dot", "elementwise_divide", "rank1TT",
                            "bilinear_form", "diag", "permute", "load", "save", "cat", "pad", "dmrg_hadamard", "amen_mm", "amen_mv"],
                "torchtt.solvers": ["amen_solve"], "torchtt.interpolate": ["dmrg_cross", "function_interpolate"],
                "torchtt.manifold": ["riemannian_projection", "riemannian_gradient"], "torchtt.grad": ["watch", "unwatch", "watch_list", "grad", "grad_list"]}


class Recorder:
    def __init__(self):
        self.depth = 0
        self.serial = 0
        self.objs = {}          # serial -> weakref
        self.ids = {}           # id(obj) -> serial
        self.last = {}          # serial -> last logged projection (without id)
        self.events = []
        self.installed = False

    # ---- registry
    def register(self, obj):
        s = self.ids.get(id(obj))
        if s is not None and self.objs.get(s) is not None and self.objs[s]() is obj:
            return s
        self.serial += 1
        s = self.serial
        self.ids[id(obj)] = s

        def gone(_ref, s=s, i=id(obj)):
            self.objs.pop(s, None)
            if self.ids.get(i) == s:
                self.ids.pop(i, None)
        self.objs[s] = weakref.ref(obj, gone)
        return s

    def projection(self, obj):
        try:
            cores = obj.cores
            if len(cores) == 0:
                return None                      # the empty TT(None): outside the properties
            d = project.derived_desc(cores)
            fp = 0
            for c in cores:
                a = c.detach().resolve_conj().cpu().contiguous().numpy()
                fp = zlib.crc32(a.tobytes(), fp)
                fp = zlib.crc32(str(a.dtype).encode(), fp)
            wf = not project.wf_problems(obj)
            return {"k": d["k"], "N": d["N"], "M": d["M"], "R": d["R"], "wf": bool(wf), "fp": int(fp & 0x3FFFFFFF)}
        except Exception:   # noqa  cores that are not even a chain
            return {"k": "bad", "N": [], "M": [], "R": [], "wf": False, "fp": 0}

    # ---- events
    def emit(self, op, targs, ints, res, exc):
        touched = []
        for s, ref in list(self.objs.items()):
            o = ref()
            if o is None:
                continue
            p = self.projection(o)
            if p is None:
                continue
            if self.last.get(s) != p or s in targs or s == res:
                self.last[s] = p
                q = dict(p); q["id"] = s
                touched.append(q)
        self.events.append({"op": op, "args": list(targs), "ints": [int(v) for v in ints][:16], "res": int(res), "exc": exc, "touched": touched})

    def wrap(self, name, fn):
        rec = self

        @functools.wraps(fn)
        def wrapper(*a, **kw):
            import torchtt
            if rec.depth > 0:
                return fn(*a, **kw)
            rec.depth += 1
            targs, ints = [], []

            def scan(v, lvl=0):
                if isinstance(v, torchtt.TT):
                    if getattr(v, "cores", None) is not None and len(getattr(v, "cores", [])) > 0:
                        targs.append(rec.register(v))
                elif isinstance(v, (bool,)):
                    pass
                elif isinstance(v, (int, np.integer)):
                    ints.append(int(v) if abs(int(v)) < 2 ** 30 else 2 ** 30)
                elif isinstance(v, (list, tuple)) and lvl < 2:
                    for w in v:
                        scan(w, lvl + 1)
            try:
                for v in a:
                    scan(v)
                for v in kw.values():
                    scan(v)
            except Exception:   # noqa
                pass
            exc, out = "", None
            try:
                out = fn(*a, **kw)
                return out
            except BaseException as e:
                exc = type(e).__name__
                raise
            finally:
                rec.depth -= 1
                try:
                    res = 0
                    if name == "TT.__init__" and exc == "" and len(getattr(a[0], "cores", [])) > 0:
                        res = rec.register(a[0])
                        targs = [t for t in targs if t != res]
                    elif isinstance(out, torchtt.TT) and len(out.cores) > 0:
                        res = rec.register(out)
                    elif isinstance(out, (list, tuple)):
                        for w in out:
                            if isinstance(w, torchtt.TT) and len(w.cores) > 0:
                                rec.register(w)
                    rec.emit(name, targs, ints, res, exc)
                except Exception as e:   # noqa  the recorder must never change the outcome of the recorded program
                    rec.events.append({"op": "recorder-error", "args": [], "ints": [], "res": 0, "exc": type(e).__name__, "touched": []})
        wrapper._vf_wrapped = True
        return wrapper

    def install(self):
        if self.installed:
            return
        import importlib, torchtt
        TT = torchtt.TT
        orig_init = TT.__init__
        rec = self

        @functools.wraps(orig_init)
        def init(obj, *a, **kw):
            if rec.depth > 0:
                orig_init(obj, *a, **kw)
                try:
                    if len(obj.cores) > 0:
                        rec.register(obj)        # objects created inside a public call are live objects too
                except Exception:   # noqa
                    pass
                return
            return rec.wrap("TT.__init__", orig_init)(obj, *a, **kw)
        TT.__init__ = init
        for m in TT_METHODS:
            if hasattr(TT, m):
                setattr(TT, m, self.wrap("TT." + m, getattr(TT, m)))
        for modname, names in MODULE_FUNCS.items():
            mod = importlib.import_module(modname)
            for n in names:
                if hasattr(mod, n) and not getattr(getattr(mod, n), "_vf_wrapped", False):
                    w = self.wrap(modname.replace("torchtt", "tt") + "." + n, getattr(mod, n))
                    setattr(mod, n, w)
        self.installed = True

    def cut(self):
        """return and clear the events recorded so far (one trace); forget the logged projections so that the next
        trace is self-contained"""
        ev, self.events = self.events, []
        self.last = {}
        return ev


RECORDER = Recorder()
