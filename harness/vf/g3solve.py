"""amen_solve (C12), elementwise division (C13) on the configurations of spec/Configs.tla."""
import math
import numpy as np
import torch

from . import project, algrun
from .g3run import opt_kwargs, quiet, Capture, rand_tt, raw_tt, dense_op, rel_err, mk_problem, check_tt, check_operands, TOL, U64, feasible_ranks


# ------------------------------------------------------------------ systems named in the specification
def eye_tt(tt, N, dt):
    return tt.eye(N, dtype=dt)


def laplace_like(tt, N, dt, gen):
    """Kronecker sum of 1-d discrete Laplacians (tridiag(-1, 2, -1)) plus a small shift: SPD, condition O(n^2)"""
    d = len(N)
    total = None
    for k in range(d):
        cores = []
        for j in range(d):
            n = N[j]
            if j == k:
                L = 2 * torch.eye(n, dtype=dt) - torch.diag(torch.ones(n - 1, dtype=dt), 1) - torch.diag(torch.ones(n - 1, dtype=dt), -1) if n > 1 else 2 * torch.eye(1, dtype=dt)
                cores.append(L.reshape(1, n, n, 1))
            else:
                cores.append(torch.eye(n, dtype=dt).reshape(1, n, n, 1))
        T = tt.TT(cores)
        total = T if total is None else total + T
    return total.round(1e-14)


def diagvar(tt, N, dt, gen):
    """Kronecker sum of tridiag(-0.45, v, -0.45) with v from 1 to 100 along every mode: symmetric, strictly diagonally dominant,
    condition number about 100 - and a diagonal that varies strongly (what a Jacobi preconditioner is for)"""
    d = len(N)
    total = None
    for k in range(d):
        cores = []
        for j in range(d):
            n = N[j]
            if j == k:
                v = torch.linspace(1.0, 100.0, n, dtype=dt) if n > 1 else torch.tensor([10.0], dtype=dt)
                T = torch.diag(v) - 0.45 * torch.diag(torch.ones(n - 1, dtype=dt), 1) - 0.45 * torch.diag(torch.ones(n - 1, dtype=dt), -1) if n > 1 else torch.diag(v)
                cores.append(T.reshape(1, n, n, 1))
            else:
                cores.append(torch.eye(n, dtype=dt).reshape(1, n, n, 1))
        S = tt.TT(cores)
        total = S if total is None else total + S
    return total.round(1e-14)


def spd(tt, N, r, dt, gen):
    """B^T B + I with B a random TT matrix of rank r scaled so that ||B|| is O(1)"""
    B = rand_tt(tt, [(n, n) for n in N], r, gen, dt, scale=1.0 / math.sqrt(max(N)))
    nb = torch.linalg.norm(dense_op(B), 2).item()
    B = B * (1.0 / max(nb, 1e-12))
    return (B.t() @ B + tt.eye(N, dtype=dt)).round(1e-14)


def diagdom(tt, N, r, dt, gen):
    """c I + E, E random of rank r, c = 2 * max absolute row sum of E (strictly diagonally dominant, non-symmetric)"""
    E = rand_tt(tt, [(n, n) for n in N], r, gen, dt)
    c = 2.0 * torch.abs(dense_op(E)).sum(1).max().item()
    return (c * tt.eye(N, dtype=dt) + E), c


def run_solve(st, opts):
    import torchtt as tt
    cfg = st["cfg"]
    N = [int(v) for v in cfg["N"]]
    d = len(N)
    eps = 10.0 ** (-cfg["e"])
    dt = torch.float64
    gen = torch.Generator().manual_seed(5000 + 1000 * cfg["seed"] + 7 * d + cfg["r"] + opts.get("seed", 0))
    torch.manual_seed(cfg["seed"] + opts.get("seed", 0))
    problems, stats = [], {"behaviours": 1, "calls": 0}
    sysc = cfg["sys"]
    if sysc == "laplace":
        A = laplace_like(tt, N, dt, gen)
    elif sysc == "diagvar":
        A = diagvar(tt, N, dt, gen)
    elif sysc == "spd":
        A = spd(tt, N, cfg["r"], dt, gen)
    else:
        A, _ = diagdom(tt, N, cfg["r"], dt, gen)
    if cfg["data"] == "decay":
        b = rand_tt(tt, N, cfg["r"], gen, dt)            # random right-hand side: the solution has larger ranks
    else:
        xt = rand_tt(tt, N, cfg["r"], gen, dt)
        b = (A @ xt).round(1e-14)
    if cfg["data"] == "zero":
        b = tt.zeros(N, dtype=dt)
    if cfg.get("scale", "unit") == "small":
        # the residual bound is relative to ||b|| and invariant under scaling of A: badly scaled data are inputs like any other
        b = 1e-5 * b
        A = 1e3 * A
    Ad = dense_op(A)
    bd = project.dense(b.cores).reshape(-1)
    g = None
    if cfg["guess"] in ("fresh", "reused"):
        g = rand_tt(tt, N, 1, gen, dt)
    elif cfg["guess"] == "big":
        g = raw_tt(tt, N, 4, gen, dt)
    elif cfg["guess"] == "zero":
        g = tt.zeros(N, dtype=dt)
    objs, names = [A, b] + ([g] if g is not None else []), ["A", "b"] + (["x0"] if g is not None else [])
    prec = None if cfg["prec"] == "none" else cfg["prec"]
    use_cpp = cfg["backend"] == "cpp"
    if use_cpp and cfg["solver"] != 1:
        return None            # the compiled backend has GMRES only
    ncalls = 2 if cfg["guess"] == "reused" else 1
    traces = []
    for it in range(ncalls):
        snap = algrun.snapshot(objs)
        stats["calls"] += 1
        cap = Capture("amen", active=not use_cpp)
        try:
            with cap, quiet():
                x = tt.solvers.amen_solve(A, b, x0=g, eps=eps, max_full=cfg["maxfull"], local_solver=cfg["solver"], preconditioner=prec,
                                          use_cpp=use_cpp, **dict({"verbose": False}, **opt_kwargs("amen_solve", cfg.get("opt"))))
        except Exception as ex:  # noqa
            problems.append(mk_problem("C12", "exception", cfg, "call %d raised %s: %s" % (it + 1, type(ex).__name__, str(ex)[:200]), st, {"exc": type(ex).__name__}))
            check_operands(cfg, st, tt, objs, snap, names, problems)
            break
        check_operands(cfg, st, tt, objs, snap, names, problems)
        if not check_tt("C12", cfg, st, tt, x, "tt", N, [], problems):
            continue
        t = cap.trace(cfg, [int(r) for r in x.R])
        traces.extend(cap.krylov)
        stats["gmres_calls"] = stats.get("gmres_calls", 0) + cap.krylov_calls
        if t is not None:
            t["kind"] = "amen"
            traces.append(t)
            if t["result_R"] != t["end"]["rx"]:
                problems.append(mk_problem("C12", "ranks-vs-shapes", cfg, "the sweep's rank list %s differs from the returned object's ranks %s" % (t["end"]["rx"], t["result_R"]), st))
            # which local solver actually ran (coverage of the configuration's intended path)
            if any(not e["use_full"] for e in t["ev"]):
                stats["path:iterative-local-solver"] = stats.get("path:iterative-local-solver", 0) + 1
            if any(e["use_full"] for e in t["ev"]):
                stats["path:direct-local-solver"] = stats.get("path:direct-local-solver", 0) + 1
        nb_ = torch.linalg.norm(bd).item()
        res = torch.linalg.norm(Ad @ project.dense(x.cores).reshape(-1) - bd).item() / (nb_ if nb_ > 0 else 1.0)     # (b = 0: the solution is 0, absolutely)
        key = "res_over_eps_max"
        stats[key] = max(stats.get(key, 0), res / eps)
        if res > TOL["C12"] * eps + 1e4 * U64:
            problems.append(mk_problem("C12", "residual", cfg, "call %d: ||Ax-b||/||b|| = %.3g > %g*eps (eps=%g, ranks %s)" % (
                it + 1, res, TOL["C12"], eps, x.R), st))
    stats["nontrivial"] = 1 if d >= 2 and (cfg["r"] >= 2 or sysc == "laplace") else 0
    return {"problems": problems, "stats": stats, "sample": {"cfg": cfg}, "artifacts": traces}


def run_divide(st, opts):
    import torchtt as tt
    cfg = st["cfg"]
    op = cfg["op"]
    N = [int(v) for v in cfg["N"]]
    d = len(N)
    eps = 10.0 ** (-cfg["e"])
    dt = torch.float64
    gen = torch.Generator().manual_seed(9000 + 1000 * cfg["seed"] + 7 * d + cfg["r"] + opts.get("seed", 0))
    torch.manual_seed(cfg["seed"] + opts.get("seed", 0))
    problems, stats = [], {"behaviours": 1, "calls": 0}
    x = rand_tt(tt, N, cfg["r"], gen, dt)
    z = rand_tt(tt, N, max(1, cfg["r"] // 2), gen, dt, scale=0.7)
    y = (1.0 + z * z).round(1e-14)                    # entries >= 1: bounded away from zero
    if cfg["data"] == "zero":
        x = tt.zeros(N, dtype=dt)
    if cfg.get("scale", "unit") == "small":
        x = 1e-5 * x
        y = 1e3 * y
    xd, yd = project.dense(x.cores), project.dense(y.cores)
    g = None
    if cfg["guess"] in ("fresh", "reused"):
        g = rand_tt(tt, N, 2, gen, dt)
    elif cfg["guess"] == "alias":
        g = x
    elif cfg["guess"] == "zero":
        g = tt.zeros(N, dtype=dt) if cfg["seed"] % 2 == 0 else 0 * rand_tt(tt, N, 2, gen, dt)
    objs = [x, y] + ([g] if g is not None and g is not x else [])
    names = ["x", "y"] + (["starting_tensor"] if g is not None and g is not x else [])
    c = 2.5
    okw = opt_kwargs(op, cfg.get("opt"))

    def call():
        if op == "div": return x / y, xd, 1e-12
        if op == "rdiv": return c / y, torch.full_like(yd, c), 1e-12
        if op == "elementwise_divide":
            return tt.elementwise_divide(x, y, eps=eps, starting_tensor=g, **okw), xd, eps
        return tt.elementwise_divide(x, y, eps=eps, starting_tensor=g, preconditioner='c', **okw), xd, eps
    ncalls = 2 if cfg["guess"] == "reused" else 1
    dtraces = []
    for it in range(ncalls):
        snap = algrun.snapshot(objs)
        stats["calls"] += 1
        cap = Capture("amen")
        try:
            with cap, quiet():
                q, num, e_solver = call()
        except Exception as ex:  # noqa
            problems.append(mk_problem("C13", "exception", cfg, "call %d raised %s: %s" % (it + 1, type(ex).__name__, str(ex)[:200]), st, {"exc": type(ex).__name__}))
            check_operands(cfg, st, tt, objs, snap, names, problems)
            break
        check_operands(cfg, st, tt, objs, snap, names, problems)
        if not check_tt("C13", cfg, st, tt, q, "tt", N, [], problems):
            continue
        t = cap.trace(cfg, [int(r) for r in q.R])
        dtraces.extend(cap.krylov)
        stats["gmres_calls"] = stats.get("gmres_calls", 0) + cap.krylov_calls
        if t is not None:
            t["kind"] = "amen"
            dtraces.append(t)
            if t["result_R"] != t["end"]["rx"]:
                problems.append(mk_problem("C13", "ranks-vs-shapes", cfg, "the sweep's rank list %s differs from the returned object's ranks %s" % (t["end"]["rx"], t["result_R"]), st))
        err = rel_err(project.dense(q.cores) * yd, num)
        stats["err_over_eps_max"] = max(stats.get("err_over_eps_max", 0), err / e_solver)
        if err > TOL["C13"] * e_solver + 1e4 * U64:
            problems.append(mk_problem("C13", "accuracy", cfg, "call %d: ||q*y - x||/||x|| = %.3g > %g*eps_solver (eps=%g)" % (it + 1, err, TOL["C13"], e_solver), st))
    # dividing by a scalar is exact
    if op == "div" and cfg["seed"] == 1:
        snap = algrun.snapshot([x])
        q = x / 4.0
        check_operands(cfg, st, tt, [x], snap, ["x"], problems)
        if not torch.equal(project.dense(q.cores) * 4.0, xd) and rel_err(project.dense(q.cores) * 4.0, xd) > 8 * U64:
            problems.append(mk_problem("C13", "scalar", cfg, "x / 4.0 is not exact", st))
        # ... for every kind of scalar, and a division that follows it still divides the same x (history: h = x / s; w = x / y)
        for sname, sv in (("int 4", 4), ("1-element tensor", torch.tensor(4.0, dtype=dt))):
            q2 = x / sv
            if not torch.equal(project.dense(q2.cores), project.dense(q.cores)):
                problems.append(mk_problem("C13", "scalar", cfg, "x / 4 (%s) differs from the quotient x / 4.0 computed before it" % sname, st))
        try:
            with quiet():
                w = x / y
            err = rel_err(project.dense(w.cores) * yd, xd)
            if err > TOL["C13"] * 1e-12 + 1e4 * U64:
                problems.append(mk_problem("C13", "accuracy", cfg, "x / y after x / scalar: ||q*y - x||/||x|| = %.3g > %g*1e-12" % (err, TOL["C13"]), st))
        except Exception as ex:  # noqa
            problems.append(mk_problem("C13", "exception", cfg, "x / y after x / scalar raised %s: %s" % (type(ex).__name__, str(ex)[:200]), st, {"exc": type(ex).__name__}))
    stats["nontrivial"] = 1 if d >= 2 and cfg["r"] >= 2 else 0
    return {"problems": problems, "stats": stats, "sample": {"cfg": cfg}, "artifacts": dtraces}


def dispatch(st, opts):
    op = st["cfg"]["op"]
    if op == "amen_solve":
        return run_solve(st, opts)
    if op in ("div", "rdiv", "elementwise_divide", "elementwise_divide_c"):
        return run_divide(st, opts)
    from . import g3cross
    return g3cross.dispatch(st, opts)
