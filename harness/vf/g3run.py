"""Execution of the configurations enumerated by spec/Configs.tla on torchtt (properties C11, C12, C13, C17).
The floating-point truth (error norm, residual) is measured densely by the harness and compared with the bound
C*eps of the owning property; shape / well-formedness / operands-untouched are checked on every call."""
import math, os, sys
import numpy as np
import torch

from . import project, algrun

TOL = {"C11": 10.0, "C12": 10.0, "C13": 10.0}     # constants of "a small constant times eps" (DESIGN.md section 4)
U64 = 2.0 ** -53


def feasible_ranks(sizes, r):
    d = len(sizes)
    return [1] + [max(1, min(r, int(np.prod(sizes[:k + 1])), int(np.prod(sizes[k + 1:])))) for k in range(d - 1)] + [1]


def rand_tt(tt, modes, r, gen, dt, decay=False, scale=1.0):
    """modes: list of ints (tensor) or (m, n) pairs (operator)"""
    d = len(modes)
    is_m = isinstance(modes[0], tuple)
    sizes = [m * n for m, n in modes] if is_m else list(modes)
    R = feasible_ranks(sizes, r)
    cores = []
    for k in range(d):
        sh = [R[k], modes[k][0], modes[k][1], R[k + 1]] if is_m else [R[k], modes[k], R[k + 1]]
        c = torch.randn(sh, generator=gen, dtype=torch.float64)
        if decay:
            c = c * (0.1 ** torch.arange(R[k + 1], dtype=torch.float64)).reshape([1] * (len(sh) - 1) + [-1])
        if dt.is_complex:
            c = c.to(dt) * torch.exp(2j * math.pi * torch.rand(sh, generator=gen, dtype=torch.float64)).to(dt)
        cores.append((c * scale).to(dt))
    return tt.TT(cores)


def raw_tt(tt, modes, r, gen, dt):
    """random TT with *all* interior ranks equal to r, even where the mode sizes cannot support them (an over-parameterised
    object, e.g. a user-supplied initial guess of arbitrary rank)"""
    d = len(modes)
    is_m = isinstance(modes[0], tuple)
    R = [1] + [r] * (d - 1) + [1]
    cores = []
    for k in range(d):
        sh = [R[k], modes[k][0], modes[k][1], R[k + 1]] if is_m else [R[k], modes[k], R[k + 1]]
        cores.append(torch.randn(sh, generator=gen, dtype=torch.float64).to(dt))
    return tt.TT(cores)


INF_L = 1073741823


def quantise(f):
    """floats of a hook event -> logarithmic integers (field name + '_L'; the scale of spec/TraceTrunc.tla); a negative
    value (the hook's 'not measured') and non-finite values become sentinels"""
    from .truncrun import L, ZERO_L
    out = {}
    for k, v in f.items():
        if isinstance(v, float):
            out[k + "_L"] = (INF_L if not math.isfinite(v) else (-INF_L if v < 0 else (L(v) if v > 0 else ZERO_L)))
        else:
            out[k] = v
    return out


class Capture:
    """context manager collecting the begin / step / sweep / end hook events of one sweep routine ('dmrg' or 'amen')"""
    def __init__(self, kind, active=True):
        self.kind, self.active = kind, active
        self.begin, self.ev, self.sw, self.end = None, [], [], None
        self.krylov, self._kcur, self.krylov_calls = [], None, 0      # recorded gmres_restart calls (first KMAX kept)

    KMAX = 60

    def __enter__(self):
        from torchtt import _verif
        k = self.kind

        def sink(name, f):
            if name == k + "_begin": self.begin, self.ev, self.sw, self.end = f, [], [], None     # a nested / repeated call restarts the record
            elif name == k + "_step": self.ev.append(quantise(f))
            elif name == k + "_sweep": self.sw.append(quantise(f))
            elif name == k + "_end": self.end = f
            elif name == "bicgstab":
                self.krylov_calls += 1
                if len(self.krylov) < self.KMAX:
                    q = quantise(f)
                    self.krylov.append({"alg": "bicgstab", "N": q["N"], "nmax": q["nmax"], "maxit": q["nmax"], "resets": 1,
                                        "ev": [{"nit": q["nit"], "relres_L": q["relres_L"], "eps_L": q["eps_L"], "converged": True}], "end": {}})
            elif name == "gmres_begin":
                self.krylov_calls += 1
                self._kcur = dict(f); self._kcur["ev"] = []
            elif name == "gmres_cycle" and self._kcur is not None:
                self._kcur["ev"].append(quantise(f))
            elif name == "gmres_end" and self._kcur is not None:
                self._kcur["end"] = f
                if len(self.krylov) < self.KMAX:
                    self.krylov.append(self._kcur)
                self._kcur = None
        _verif.install(sink if self.active else None)
        return self

    def __exit__(self, *a):
        from torchtt import _verif
        _verif.install(None)
        return False

    def trace(self, cfg, result_R):
        if self.begin is None or self.end is None:
            return None
        from .truncrun import L
        t = dict(self.begin)
        dd = len(t.get("M", t.get("S", [])))
        for kt in self.krylov:
            kt.update({"kind": "krylov", "routine": "gmres_restart", "cfg": cfg, "result_R": []})
        t.update({"ev": self.ev, "sw": self.sw, "end": self.end, "result_R": result_R, "cfg": cfg,
                  "dm1_L": L(max(dd - 1, 1)), "sqrtd_L": L(math.sqrt(max(dd, 1)))})
        return t


def opt_kwargs(op, opt):
    """keyword arguments of the documented optional-argument deviation named by Configs.tla's cfg.opt for the routine behind op"""
    if opt in (None, "default"):
        return {}
    dm = op in ("fast_matvec", "dmrg_hadamard")
    cross = op in ("dmrg_cross", "interp_uni", "interp_multi")
    div = op in ("elementwise_divide", "elementwise_divide_c")
    if opt == "verbose": return {"verb": True} if dm else {"verbose": True}
    if opt == "nswp40": return {"nswp": 40}
    if opt == "kick1": return {"kick": 1} if div else {"kickrank": 1}
    if opt == "kick22": return {"kickrank": 2, "kick2": 2}
    if opt == "iters": return {"local_iterations": 10, "resets": 8}
    if opt == "rmax64": return {"rmax": 64}
    if opt == "band1": return {"band_diagonal": 1}
    if opt == "band2": return {"band_diagonal": 2}
    raise KeyError(opt)


class quiet:
    """the verbose variants print; what they print is not part of any claim"""
    def __enter__(self):
        import io, contextlib
        self.cm = contextlib.redirect_stdout(io.StringIO()); self.cm.__enter__(); return self

    def __exit__(self, *a):
        return self.cm.__exit__(*a)


def dense_op(A):
    """dense operator as a matrix prod(M) x prod(N)"""
    D = project.dense(A.cores)
    d = len(A.cores)
    M = int(np.prod(D.shape[:d])); N = int(np.prod(D.shape[d:]))
    return D.reshape(M, N)


def rel_err(got, ref):
    n = torch.linalg.norm(ref).item()
    return torch.linalg.norm(got - ref).item() / n if n > 0 else torch.linalg.norm(got).item()


def mk_problem(prop, cls, cfg, msg, st, extra=None):
    key = {"op": cfg["op"], "cls": cls, "d": len(cfg["N"]), "guess": cfg["guess"], "backend": cfg.get("backend", "py")}
    for k in ("prec", "solver", "maxfull", "sys"):
        if k in cfg:
            key[k] = cfg[k]
    if cfg.get("opt", "default") != "default":
        key["opt"] = cfg["opt"]
    key.update(extra or {})
    return {"prop": prop, "cls": cls, "op": cfg["op"], "key": key, "msg": "%s %s: %s" % (cfg["op"], {k: v for k, v in cfg.items() if k != "op"}, msg),
            "replay": {"engine": "vf.g3run", "state": st}}


def check_tt(prop, cfg, st, tt, Y, kind, N, M, problems):
    if not isinstance(Y, tt.TT):
        problems.append(mk_problem(prop, "kind", cfg, "returned %s" % type(Y).__name__, st)); return False
    wf = project.wf_problems(Y)
    if wf:
        problems.append(mk_problem("C05", "ill-formed", cfg, "result ill-formed: %s" % wf, st)); return False
    d = project.derived_desc(Y.cores)
    if d["k"] != kind or d["N"] != list(N) or d["M"] != list(M):
        problems.append(mk_problem(prop, "shape", cfg, "result %s N=%s M=%s, expected %s N=%s M=%s" % (d["k"], d["N"], d["M"], kind, list(N), list(M)), st))
        return False
    return True


def check_operands(cfg, st, tt, objs, snap, names, problems):
    for n, why in algrun.changed(objs, snap):
        problems.append(mk_problem("C06", "operand-changed", cfg, "argument '%s' changed: %s" % (names[n], "; ".join(why)), st, {"arg": names[n]}))
    for n, o in enumerate(objs):
        wf = project.wf_problems(o)
        if wf:
            problems.append(mk_problem("C05", "ill-formed", cfg, "argument '%s' ill-formed after the call: %s" % (names[n], wf), st, {"arg": names[n]}))


# ---------------------------------------------------------------------------------- C11
def run_product(st, opts):
    import torchtt as tt
    cfg, exp = st["cfg"], st["expect"]
    op = cfg["op"]
    N, M = [int(v) for v in cfg["N"]], [int(v) for v in cfg["M"]]
    d = len(N)
    eps = 10.0 ** (-cfg["e"])
    dt = torch.complex128 if cfg["cx"] else torch.float64
    gen = torch.Generator().manual_seed(1000 * cfg["seed"] + 7 * d + cfg["r"] + opts.get("seed", 0))
    torch.manual_seed(cfg["seed"] + opts.get("seed", 0))          # the routines draw guesses / kicks from the global RNG
    decay = cfg["data"] == "decay"
    problems, stats = [], {"behaviours": 1, "calls": 0}
    use_cpp = cfg["backend"] == "cpp"
    if cfg["data"] == "flat":         # (operands built below; a dense 160000 x 160000 operator is never formed)
        ops, names, ref = [None, None], (["A", "x"] if op == "fast_matvec" else ["x", "y"]), None
        gshape, gkind, want = N, "tt", ("tt", N, [])
    elif op in ("fast_matvec", "amen_mv"):
        A = rand_tt(tt, list(zip(M, N)), cfg["r"], gen, dt, decay)
        x = rand_tt(tt, N, cfg["r"], gen, dt, decay)
        ref = (dense_op(A) @ project.dense(x.cores).reshape(-1)).reshape(M)
        ops, names = [A, x], ["A", "x"]
        gshape, gkind = M, "tt"
        want = ("tt", M, [])
    elif op == "amen_mm":
        K = [n + 1 if n < 3 else n - 1 for n in N] if cfg["data"] != "col1" else [1] * len(N)
        A = rand_tt(tt, list(zip(M, N)), cfg["r"], gen, dt, decay)
        B = rand_tt(tt, list(zip(N, K)), cfg["r"], gen, dt, decay)
        ref = (dense_op(A) @ dense_op(B)).reshape(M + K)
        ops, names = [A, B], ["A", "B"]
        gshape, gkind = list(zip(M, K)), "ttm"
        want = ("ttm", K, M)
    else:   # dmrg_hadamard
        x = rand_tt(tt, N, cfg["r"], gen, dt, decay)
        y = rand_tt(tt, N, cfg["r"], gen, dt, decay)
        ref = project.dense(x.cores) * project.dense(y.cores)
        ops, names = [x, y], ["x", "y"]
        gshape, gkind = N, "tt"
        want = ("tt", N, [])
    if cfg["data"] == "flat":
        # one dominant singular value and a flat tail of n - 20 equal ones at 0.9 x the per-bond allowance of the final sweep (eps / sqrt d)
        n = N[0]
        sv = torch.full((n,), 0.0, dtype=dt); sv[0] = 1.0; sv[1:n - 19] = 0.9 * eps / math.sqrt(2.0)
        U = torch.linalg.qr(torch.randn(n, n, dtype=dt, generator=gen))[0]
        V = torch.linalg.qr(torch.randn(n, n, dtype=dt, generator=gen))[0]
        F = tt.TT([(U * sv).reshape(1, n, n).contiguous(), V.t().reshape(n, n, 1).contiguous()])
        ref = project.dense(F.cores)
        ops = [tt.eye(N, dtype=dt), F] if op == "fast_matvec" else [tt.ones(N, dtype=dt), F]
    if cfg["data"] == "zero":
        # the second operand is exactly zero: the exact product is the zero tensor
        ops[1] = tt.zeros(list(zip(N, K)) if op == "amen_mm" else N, dtype=dt)
        ref = torch.zeros_like(ref)
    sc = cfg.get("scale", "unit")
    if sc != "unit":
        # the same mathematical operands, badly scaled: one non-final core of the first operand times 1e5, or everything tiny
        cs = [c.clone() for c in ops[0].cores]
        if sc == "bigcore":
            cs[min(1, len(cs) - 2) if len(cs) >= 3 else 0] *= 1e5
        else:
            cs[0] *= 1e-5
        ops[0] = tt.TT(cs)
        ref = ref * (1e5 if sc == "bigcore" else 1e-5)
    g = None
    if cfg["guess"] in ("fresh", "reused"):
        g = rand_tt(tt, gshape, 1, gen, dt)
    elif cfg["guess"] == "big":
        g = raw_tt(tt, gshape, 5, gen, dt)
    elif cfg["guess"] == "zero":
        g = tt.zeros(gshape, dtype=dt)                 # a user-supplied guess that happens to vanish
    elif cfg["guess"] in ("exact1", "exact2"):
        # the exact result (TT-SVD of the dense reference at machine precision) as the guess, and a sweep budget of 1 or 2
        g = tt.TT(ref.clone(), gshape if gkind == "ttm" else None, eps=1e-14)
    elif cfg["guess"] == "alias":
        g = ops[1] if op != "amen_mm" else None        # the operand itself as the initial guess (square modes)
        if op == "amen_mm":
            return None
    allobjs = ops + ([g] if g is not None and g is not ops[1] else [])
    allnames = names + (["guess"] if g is not None and g is not ops[1] else [])

    kw = {"nswp": int(cfg["guess"][-1])} if cfg["guess"] in ("exact1", "exact2") else {}
    kw.update(opt_kwargs(op, cfg.get("opt")))

    def call():
        if op == "fast_matvec":
            return ops[0].fast_matvec(ops[1], eps=eps, initial=g, use_cpp=use_cpp, **kw)
        if op == "amen_mv":
            return tt.amen_mv(ops[0], ops[1], x0=g, eps=eps, **kw)
        if op == "amen_mm":
            return tt.amen_mm(ops[0], ops[1], X0=g, eps=eps, **kw)
        return tt.dmrg_hadamard(ops[0], ops[1], z0=g, eps=eps, **kw)
    ncalls = 2 if cfg["guess"] == "reused" else 1
    traces = []
    from torchtt import _verif
    for it in range(ncalls):
        snap = algrun.snapshot(allobjs)
        stats["calls"] += 1
        cap = Capture("dmrg" if op in ("fast_matvec", "dmrg_hadamard") else "amen", active=not use_cpp)
        try:
            with cap, quiet():
                Y = call()
        except Exception as ex:  # noqa
            problems.append(mk_problem("C11", "exception", cfg, "call %d raised %s: %s" % (it + 1, type(ex).__name__, str(ex)[:200]), st, {"exc": type(ex).__name__}))
            check_operands(cfg, st, tt, allobjs, snap, allnames, problems)
            break
        t = cap.trace(cfg, [int(r) for r in Y.R] if isinstance(Y, tt.TT) else [])
        if t is not None and d >= 2:
            t["kind"] = cap.kind
            traces.append(t)
        check_operands(cfg, st, tt, allobjs, snap, allnames, problems)
        if not check_tt("C11", cfg, st, tt, Y, want[0], want[1], want[2], problems):
            continue
        err = rel_err(project.dense(Y.cores).reshape(ref.shape), ref)
        stats["err_over_eps_max"] = max(stats.get("err_over_eps_max", 0), err / eps)
        if cfg["data"] == "zero":
            err = err / max(1.0, torch.linalg.norm(project.dense(ops[0].cores)).item())       # (absolute, relative to the non-zero operand)
        if err > TOL["C11"] * eps + 1e3 * U64:
            problems.append(mk_problem("C11", "accuracy", cfg, "call %d: relative error %.3g > %g*eps (eps=%g, result ranks %s)" % (
                it + 1, err, TOL["C11"], eps, Y.R), st))
    stats["nontrivial"] = 1 if d >= 2 and cfg["r"] >= 2 else 0
    sample = {"cfg": cfg, "expected": {k: (sorted(v) if isinstance(v, (set, frozenset)) else v) for k, v in exp.items()}}
    for t in traces:      # the returned object's ranks must be the ranks the sweep ended with
        endR = t["end"].get("Ry", t["end"].get("rx"))
        if t["result_R"] and t["result_R"] != endR:
            problems.append(mk_problem("C11", "ranks-vs-shapes", cfg, "the sweep's rank list %s differs from the returned object's ranks %s" % (endR, t["result_R"]), st))
    return {"problems": problems, "stats": stats, "sample": sample, "artifacts": traces}


def handler(st, opts):
    if st["expect"]["t"] == "none":
        return None
    op = st["cfg"]["op"]
    if op in ("fast_matvec", "dmrg_hadamard", "amen_mv", "amen_mm"):
        return run_product(st, opts)
    from . import g3solve
    return g3solve.dispatch(st, opts)


def rerun(payload):
    r = handler(payload["state"], {})
    return r["problems"] if r else []
