"""Common check runner: collects TLC runs and replay results for one property, separates violations
from known findings, writes replay files and the evidence file, prints the verdict lines."""
import os, sys, json, time, hashlib

from . import findings as F

VERIF = os.path.dirname(os.path.dirname(os.path.dirname(os.path.abspath(__file__))))
EVID = os.environ.get("VERIF_EVID") or os.path.join(VERIF, "evidence")
REPLAY = os.path.join(os.environ.get("VERIF_OUT") or os.path.join(VERIF, "out"), "replay")


def jsonable(o):
    import numpy as np
    if isinstance(o, dict):
        return {str(k): jsonable(v) for k, v in o.items()}
    if isinstance(o, (list, tuple)):
        return [jsonable(v) for v in o]
    if isinstance(o, (np.integer,)):
        return int(o)
    if isinstance(o, (np.floating,)):
        return float(o)
    if isinstance(o, (str, int, float, bool)) or o is None:
        return o
    return repr(o)


class Run:
    def __init__(self, prop, tier, level, seed=None):
        self.prop, self.tier, self.level = prop, tier, level
        self.seed = int(os.environ.get("VERIF_SEED", "0")) if seed is None else seed
        self.t0 = time.time()
        self.tlc = []            # summaries of TLC runs
        self.problems = []       # all deviations seen (any property)
        self.stats = {}
        self.samples = []
        self.evaluations = 0
        self.nontrivial = 0
        self.traces = 0          # behaviours replayed into / traces validated against the implementation
        self.notes = []
        self.assumptions = []
        self.rule = ""
        self.exhaustive = False
        self.machinery = []
        self.extra = {}

    # -- accumulation
    def add_tlc(self, r, what):
        self.tlc.append({"what": what, "module_cfg": os.path.basename(r["cmd"].split()[-1]), "states": r.get("distinct", 0),
                         "generated": r.get("generated", 0), "depth": r.get("depth"), "wall_s": r["wall_s"],
                         "invariant_violated": r.get("invariant_violated", []) + r.get("action_property_violated", []),
                         "no_error": r.get("no_error", False)})

    def add_replay(self, rr, model):
        for p in rr["problems"]:
            p["model"] = model
            if p.get("cls") == "machinery":
                self.machinery.append(p)
            else:
                if p.get("prop") is None:          # (a timed-out call reported by the engine without a property: it is this check's)
                    p["prop"] = self.prop
                self.problems.append(p)
        for k, v in rr["stats"].items():
            self.stats[k] = max(self.stats.get(k, 0), v) if k.endswith("_max") else self.stats.get(k, 0) + v
        for s in rr["samples"]:
            if len(self.samples) < 8:
                self.samples.append(s)
        self.evaluations += rr["stats"].get("calls", 0)
        self.nontrivial += rr["stats"].get("nontrivial", 0)
        self.traces += rr["stats"].get("behaviours", rr["n_states"])

    # -- verdict
    def finish(self):
        os.makedirs(EVID, exist_ok=True)
        os.makedirs(REPLAY, exist_ok=True)
        known = F.load()
        mine = [p for p in self.problems if p.get("prop") == self.prop]
        others = [p for p in self.problems if p.get("prop") != self.prop]
        viol, kf = [], {}
        for p in mine:
            f = F.match(p, self.prop, known)
            if f is not None:
                kf.setdefault(f["id"], [f, 0])
                kf[f["id"]][1] += 1
            else:
                viol.append(p)
        # group violations by structural key so that one defect prints one line
        groups = {}
        for p in viol:
            gk = json.dumps(jsonable(p.get("key", {})), sort_keys=True)
            groups.setdefault(gk, []).append(p)
        lines = []
        nfile = 0
        for gk, ps in list(groups.items())[:40]:
            p = ps[0]
            h = hashlib.sha1((gk + p.get("model", "")).encode()).hexdigest()[:10]
            path = os.path.join(REPLAY, "%s-%s.json" % (self.prop, h))
            with open(path, "w") as f:
                json.dump(jsonable({"property": self.prop, "model": p.get("model"), "class": p.get("cls"), "message": p.get("msg"),
                                    "key": p.get("key"), "count_same_key": len(ps), "replay": p.get("replay", p.get("case")),
                                    "expected": p.get("expected"), "dtype": p.get("dtype")}), f, indent=1)
            nfile += 1
            lines.append("VIOLATION property=%s replay=%s" % (self.prop, path))
            print("  [%s] %s (%d cases with this key)" % (p.get("cls"), str(p.get("msg"))[:300], len(ps)))
        for fid, (f, n) in kf.items():
            print("KNOWN-FINDING: property=%s %s (%s; %d occurrences this run)" % (self.prop, f["id"], f["what"], n))
        tlc_bad = [t for t in self.tlc if t["invariant_violated"]]
        for t in tlc_bad:
            # a violated model invariant is reported by the check that ran it (see each check for how it is classified)
            pass
        states = sum(t["states"] for t in self.tlc)
        trans = sum(t["generated"] for t in self.tlc)
        cov = {"states": states, "transitions": trans, "traces_validated_against_impl": self.traces,
               "samples": jsonable(self.samples[:6]) or [{"note": "no sample recorded"}],
               "evaluations": self.evaluations, "distinct_nontrivial": self.nontrivial, "rule": self.rule,
               "exhaustive": self.exhaustive, "tlc_runs": self.tlc, "stats": jsonable(self.stats),
               "known_findings_hit": {k: v[1] for k, v in kf.items()},
               "deviations_attributed_to_other_properties": _count(others),
               "checker_cmd": "bin/check %s --tier %s" % (self.prop, self.tier)}
        cov.update(jsonable(self.extra))
        if self.notes:
            cov["notes"] = self.notes
        ev = {"property_id": self.prop, "tier": self.tier, "seed": self.seed, "level": self.level, "coverage": cov,
              "assumptions": self.assumptions, "wall_s": round(time.time() - self.t0, 2), "violations": len(groups)}
        with open(os.path.join(EVID, self.prop + ".json"), "w") as f:
            json.dump(ev, f, indent=1)
        if self.machinery:
            for m in self.machinery[:5]:
                print("MACHINERY-FAILURE: %s" % str(m.get("msg"))[:2000])
            print("check %s: machinery failure (exit 2)" % self.prop)
            return 2
        for n in self.notes:
            if str(n).startswith("NOTE "):
                print(n)
        for l in lines:
            print(l)
        print("check %s %s: %d evaluations, %d TLC states, %d violations (distinct keys), %d known findings, %.1fs" % (
            self.prop, self.tier, self.evaluations, states, len(groups), len(kf), time.time() - self.t0))
        return 1 if lines else 0


def _count(ps):
    c = {}
    for p in ps:
        k = "%s/%s/%s" % (p.get("prop"), p.get("cls"), p.get("op"))
        c[k] = c.get(k, 0) + 1
    return c
