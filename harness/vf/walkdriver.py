"""Seeded random walks over the real public API (including the operations whose ranks the implementation chooses:
round, reshape, permute, division, DMRG products), run under the outside recorder; the recorded traces are validated
by TLC against spec/TraceHeap.tla (C05 / C06 on long histories)."""
import random, sys, os, json
import numpy as np


def one_walk(tt, torch, rng, steps):
    dt = torch.float64
    shapes = [[2, 3], [3, 1, 2], [2, 2, 2], [4, 3], [1, 3], [3]]
    N = rng.choice(shapes)
    objs = []

    def rnd_tt(N, r=2):
        R = [1] + [r] * (len(N) - 1) + [1]
        return tt.randn(N, R, dtype=dt)

    def rnd_ttm(N):
        return tt.randn([(n + 1, n) for n in N], [1] + [2] * (len(N) - 1) + [1], dtype=dt)
    objs.append(rnd_tt(N)); objs.append(rnd_tt(N, 1)); objs.append(rnd_ttm(N))
    for _ in range(steps):
        op = rng.choice(["add", "sub", "mul", "neg", "round", "round_rmax", "reshape", "permute", "index", "sum", "cat", "pad", "matvec", "kron",
                         "set_core", "set_core_neg", "ctor_sub", "ctor_dense", "reduce_dims", "to_ttm", "diag", "clone", "scal", "adds", "div_s", "norm", "full", "t", "conj", "hadamard",
                         "fast_matvec", "amen_mv", "div", "dot_axes", "mprod", "to_qtt"])
        tens = [o for o in objs if not o.is_ttm]
        mats = [o for o in objs if o.is_ttm]
        x = rng.choice(tens)
        same = [o for o in tens if o.N == x.N]
        y = rng.choice(same)
        try:
            if op == "add": out = x + y
            elif op == "sub": out = x - y
            elif op == "mul": out = x * y if max(x.R) * max(y.R) <= 16 else x + y
            elif op == "neg": out = -x
            elif op == "round": out = x.round(1e-10)
            elif op == "round_rmax": out = x.round(1e-3, 2)
            elif op == "reshape":
                n = int(np.prod(x.N))
                out = tt.reshape(x, [n]) if len(x.N) > 1 and n <= 64 else (tt.reshape(x, [2, n // 2]) if n % 2 == 0 and n > 2 else x.clone())
            elif op == "permute": out = tt.permute(x, list(range(len(x.N) - 1, -1, -1)), 1e-10) if len(x.N) > 1 else x.clone()
            elif op == "index": out = x[(slice(0, 1),) + (slice(None),) * (len(x.N) - 1)]
            elif op == "sum": out = x.sum(0) if len(x.N) > 1 else x.sum()
            elif op == "cat": out = tt.cat((x, y), 0) if x.N[0] + y.N[0] <= 8 else x - y
            elif op == "pad": out = tt.pad(x, ((0, 1),), 1.5) if x.N[-1] <= 6 and max(x.R) <= 8 else x.clone()
            elif op == "matvec":
                cand = [A for A in mats if A.N == x.N]
                out = (rng.choice(cand) @ x) if cand and max(x.R) <= 6 else x.clone()
            elif op == "kron": out = x ** y if len(x.N) + len(y.N) <= 4 else x.clone()
            elif op == "set_core":
                c = x.cores[0]
                x.set_core(0, torch.randn(c.shape[0], c.shape[1] + rng.choice([0, 1]) if c.shape[1] < 5 else c.shape[1], c.shape[2], dtype=dt)); out = None
            elif op == "set_core_neg":        # not a position: must be rejected and leave the object as it was
                cl = x.cores[-1]
                x.set_core(-1, torch.randn(1, cl.shape[1], 1, dtype=dt)); out = None
            elif op == "ctor_sub":            # a sub-chain of cores: a valid object only if the cut bond has rank one
                cs = list(x.cores[1:]) if rng.random() < 0.5 else list(x.cores[:-1])
                out = tt.TT(cs) if len(cs) > 0 else None
            elif op == "ctor_dense":          # constructor forms: dense source with a tensor or an order-1 / order-2 operator shape
                form = rng.choice(["t", "m1", "m1flat", "m2"])
                if form == "t": out = tt.TT(torch.randn(2, 3, dtype=dt))
                elif form == "m1": out = tt.TT(torch.randn(3, 4, dtype=dt), [(3, 4)])
                elif form == "m1flat": out = tt.TT(torch.randn(8, dtype=dt), [(4, 2)])
                else: out = tt.TT(torch.randn(2, 3, 3, 2, dtype=dt), [(2, 3), (3, 2)])
            elif op == "reduce_dims": x.reduce_dims(); out = None
            elif op == "to_ttm": out = x.to_ttm()
            elif op == "diag": out = tt.diag(x) if int(np.prod(x.N)) <= 16 else x.clone()
            elif op == "clone": out = x.clone()
            elif op == "scal": out = 2.0 * x
            elif op == "adds": out = x + 1.0 if max(x.R) <= 8 else x.clone()
            elif op == "div_s": out = x / 2.0
            elif op == "norm": x.norm(); out = None
            elif op == "full": x.full(); out = None
            elif op == "t": out = rng.choice(mats).t()
            elif op == "conj": out = x.conj()
            elif op == "hadamard":
                g = rng.choice(same) if rng.random() < 0.5 else None          # an existing object as the optional initial guess
                out = tt.dmrg_hadamard(x, y, z0=g, eps=1e-8) if max(x.R) * max(y.R) <= 16 else x.clone()
            elif op == "fast_matvec":
                cand = [A for A in mats if A.N == x.N]
                if cand and max(x.R) <= 6:
                    A = rng.choice(cand)
                    gs = [o for o in tens if o.N == A.M]
                    g = rng.choice(gs) if gs and rng.random() < 0.6 else None
                    out = A.fast_matvec(x, eps=1e-8, initial=g)
                else:
                    out = x.clone()
            elif op == "amen_mv":
                cand = [A for A in mats if A.N == x.N]
                if cand and max(x.R) <= 4 and len(x.N) >= 2:
                    A = rng.choice(cand)
                    gs = [o for o in tens if o.N == A.M]
                    g = rng.choice(gs) if gs and rng.random() < 0.6 else None
                    out = tt.amen_mv(A, x, x0=g, eps=1e-8, nswp=6)
                else:
                    out = x.clone()
            elif op == "div": out = x / (1.0 + y * y) if len(x.N) >= 2 and max(x.R) <= 4 and max(y.R) <= 2 else x.clone()
            elif op == "dot_axes": out = tt.dot(x, tt.ones([x.N[0]], dtype=dt), [0]) if len(x.N) > 1 else x.clone()
            elif op == "mprod": out = x.mprod(torch.randn(2, x.N[0], dtype=dt), 0)
            elif op == "to_qtt": out = tt.ones([4, 2], dtype=dt).to_qtt()
            else: out = None
        except Exception:   # noqa  a raising call is an event too; whether it may raise is not this driver's business
            out = None
        if out is not None and hasattr(out, "cores") and len(out.cores) > 0 and max(out.R) <= 24 and int(np.prod(out.N)) <= 4096:
            objs.append(out)
        if len(objs) > 14:            # forget old objects (they die and leave the registry)
            del objs[3:6]
            tens = [o for o in objs if not o.is_ttm]
            if not tens:
                objs.append(rnd_tt(N))


def main():
    out, nwalks, steps, seed, repo = sys.argv[1], int(sys.argv[2]), int(sys.argv[3]), int(sys.argv[4]), sys.argv[5]
    sys.path.insert(0, repo)
    import warnings
    warnings.filterwarnings("ignore")
    import torch, torchtt as tt
    from .recorder import RECORDER
    torch.set_num_threads(1)
    RECORDER.install()
    traces = []
    for w in range(nwalks):
        rng = random.Random(1000 * seed + w)
        torch.manual_seed(1000 * seed + w)
        RECORDER.cut()
        one_walk(tt, torch, rng, steps)
        traces.append({"name": "walk-%d-%d" % (seed, w), "ev": RECORDER.cut()})
    with open(out, "w") as f:
        json.dump({"traces": traces}, f)


if __name__ == "__main__":
    main()
