"""Re-execution of a recorded replay file (used by --replay)."""


def rerun(rec):
    model = rec.get("model") or ""
    payload = rec.get("replay")
    if isinstance(payload, dict) and payload.get("engine"):
        import importlib
        mod = importlib.import_module(payload["engine"])
        return mod.rerun(payload)
    # default: an Alg case with its expected outcome
    from . import algrun
    case, res = payload["case"], payload["res"]
    out = []
    for real in ([rec.get("dtype")] if rec.get("dtype") else ["f64"]):
        out += algrun.run_one(case, res, real, rec["property"], {})
    return out
