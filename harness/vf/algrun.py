"""Replay of spec/Alg.tla states (one public operation on canonical integer operands) against torchtt.
For every state: build the operands with the model's fill, perform the call through the public API,
project the result with the harness's own contraction and compare with the TLC-computed outcome.

Deviation classes and the property they are attributed to:
  value / ranks / shape / dtype / kind / full / exception(status must)  -> the property owning the op family
  operand-changed                                                        -> C06
  ill-formed (operand or result)                                         -> C05
"""
import numpy as np
import torch

from . import fill, project

LIB_EXC = ("ShapeMismatch", "RankMismatch", "IncompatibleTypes", "InvalidArguments", "NotImplementedError")
NONE = 99
ROUNDOFF = {torch.float64: 1e-11, torch.complex128: 1e-11, torch.float32: 2e-4, torch.complex64: 2e-4}
TRACKABLE = {"norm2", "norm", "sum_all", "sum_axes", "dot", "dot_axes", "bilinear"}


def _tt():
    import torchtt
    return torchtt


def build(S, real="f64"):
    return _tt().TT(fill.mk_cores(S, real=real))


def scalar_value(s, dt):
    re, im, kind = s["re"], s["im"], s["kind"]
    if kind in ("int", "intbig"): return int(re)
    if kind == "float": return float(re)
    if kind == "bool": return bool(re)
    if kind == "npf64": return np.float64(re)
    if kind == "npf32": return np.float32(re)
    if kind == "npi64": return np.int64(re)
    if kind == "t0d": return torch.tensor(complex(re, im) if dt.is_complex else float(re), dtype=dt)
    if kind == "t1": return torch.tensor([complex(re, im) if dt.is_complex else float(re)], dtype=dt)
    if kind == "complex": return complex(re, im)
    if kind == "tiny": return float(re) * 2.0 ** -100
    raise ValueError(kind)


def expected_dense(res, dt):
    re = np.array(res["re"], dtype=np.float64).reshape(list(res["sh"]))
    if dt.is_complex:
        im = np.array(res["im"], dtype=np.float64).reshape(re.shape)
        return torch.tensor(re + 1j * im, dtype=dt)
    return torch.tensor(re, dtype=dt)


def snapshot(objs):
    """bitwise snapshot of operands for the C06 comparison"""
    snap = []
    for o in objs:
        snap.append({"cores": [c.detach().clone() for c in o.cores], "N": list(o.N), "R": list(o.R), "ttm": o.is_ttm,
                     "M": list(o.M) if o.is_ttm else [], "ver": project.versions(o.cores)})
    return snap


def changed(objs, snap):
    out = []
    for n, (o, s) in enumerate(zip(objs, snap)):
        why = []
        if len(o.cores) != len(s["cores"]):
            why.append("number of cores %d -> %d" % (len(s["cores"]), len(o.cores)))
        else:
            for k, (c, c0) in enumerate(zip(o.cores, s["cores"])):
                if c.shape != c0.shape or c.dtype != c0.dtype:
                    why.append("core %d shape/dtype %s %s -> %s %s" % (k, tuple(c0.shape), c0.dtype, tuple(c.shape), c.dtype))
                elif not torch.equal(c.detach(), c0):
                    why.append("core %d value changed (max |diff| %.3g)" % (k, (c.detach() - c0).abs().max().item()))
        try:
            if list(o.N) != s["N"] or list(o.R) != s["R"] or o.is_ttm != s["ttm"]:
                why.append("metadata N/R %s %s -> %s %s" % (s["N"], s["R"], o.N, o.R))
        except Exception as e:  # noqa
            why.append("metadata unreadable: %s" % e)
        if why:
            out.append((n, why))
    return out


def py_index(e):
    items = []
    for it in e:
        t = it["t"]
        if t == "i":
            items.append(int(it["v"]))
        elif t == "s":
            items.append(slice(None if it["lo"] == NONE else it["lo"], None if it["hi"] == NONE else it["hi"],
                               None if it["st"] == 1 and it["lo"] == NONE and it["hi"] == NONE else it["st"]))
        elif t == "n":
            items.append(None)
        elif t == "e":
            items.append(Ellipsis)
    return tuple(items)


# ------------------------------------------------------------------ the calls
# homogeneity degree of the operations in their TT operands: with every operand scaled by 2^-60 (an exact scaling in binary
# floating point) the result is the unit-scale result times 2^(-60 deg), exactly - magnitudes are inputs like any other
SCALE_EXP = 60
DEG = {"add": 1, "sub": 1, "mul": 2, "add_rev": 1, "sub_rev": 1, "mul_rev": 2, "neg": 1, "pos": 1, "conj": 1, "full": 1, "clone": 1,
       "kron_none": 1, "to_ttm": 1, "diag_embed": 1, "diag_extract": 1, "t": 1, "mul_s": 1, "rmul_s": 1, "div_s": 1, "kron": 2,
       "matvec": 2, "vecmat": 2, "matmat": 2, "norm2": 2, "norm": 1, "sum_all": 1, "dot": 2, "bilinear": 3, "matdense": 1,
       "sum_axes": 1, "dot_axes": 2, "index": 1, "index_m": 1, "apply_mask": 1, "cat": 1, "cat3": 1, "mprod": 1, "mprod_rep": 1}


def scale_deg(case):
    op = case["op"]
    if case.get("s", {}).get("kind") in ("tiny", "intbig"):
        return None          # (2^-100 times 2^-60 underflows float32; 2^24+1 is not exactly scalable in float32)
    if op in ("pad", "pad_m"):
        return 1 if float(case.get("val", 0)) == 0.0 else None
    return DEG.get(op)


def variants(case, real, opts, tiny=False):
    """list of (label, operands, thunk, dtype, scalar) - each thunk performs the public call once"""
    tt = _tt()
    op = case["op"]
    out = []

    def colmajor(c):
        p = list(range(c.dim()))[::-1]
        return c.permute(p).contiguous().permute(p)         # same values, reversed strides (a non-contiguous view)

    def shrink(T):
        # the "tiny" variant: every operand times 2^-60 *and* stored in column-major (non-contiguous) cores, as returned by
        # round / t / permute / mprod - neither the magnitude nor the memory layout of an operand is part of its value
        if not tiny or T is None:
            return T
        return tt.TT([colmajor(T.cores[0] * 2.0 ** -SCALE_EXP)] + [colmajor(c) for c in T.cores[1:]])

    def mk():
        X = build(case["x"], real)
        dt = X.cores[0].dtype
        Y = build(case["y"], real) if isinstance(case.get("y"), dict) and "I" in case["y"] else None
        Z = build(case["z"], real) if isinstance(case.get("z"), dict) and "I" in case["z"] else None
        return shrink(X), shrink(Y), shrink(Z), dt

    X, Y, Z, dt = mk()
    s = scalar_value(case["s"], dt) if "s" in case else None
    ops = [o for o in (X, Y, Z) if o is not None]
    S = case["x"]
    table = {
        "add": lambda: X + Y, "sub": lambda: X - Y, "mul": lambda: X * Y,
        "add_rev": lambda: X + Y, "sub_rev": lambda: X - Y, "mul_rev": lambda: X * Y,
        "neg": lambda: -X, "pos": lambda: +X, "conj": lambda: X.conj(), "full": lambda: X.full(),
        "clone": lambda: X.clone(), "kron_none": lambda: X ** None, "to_ttm": lambda: X.to_ttm(),
        "diag_embed": lambda: tt.diag(X), "diag_extract": lambda: tt.diag(X), "t": lambda: X.t(),
        "add_s": lambda: X + s, "radd_s": lambda: s + X, "sub_s": lambda: X - s, "rsub_s": lambda: s - X,
        "mul_s": lambda: X * s, "rmul_s": lambda: s * X, "div_s": lambda: X / s,
        "kron": lambda: X ** Y,
        "matvec": lambda: X @ Y, "vecmat": lambda: X @ Y, "matmat": lambda: X @ Y,
        "norm2": lambda: X.norm(True), "norm": lambda: X.norm(), "sum_all": lambda: X.sum(),
        "dot": lambda: tt.dot(X, Y), "bilinear": lambda: tt.bilinear_form(Y, X, Z),
    }
    if op in table:
        out.append(("", ops, table[op], dt, s))
        if op == "kron":
            out.append(("fn", ops, lambda: tt.kron(X, Y), dt, s))
        if op == "kron_none":
            out.append(("fn", ops, lambda: tt.kron(X, None), dt, s))
            out.append(("fn-left", ops, lambda: tt.kron(None, X), dt, s))
    elif op == "matdense":
        D = fill.dense_fill(list(case["bsh"]) + list(S["J"]), case["f"], S["cx"], dt)
        out.append(("", ops, lambda: X @ D, dt, s))
    elif op == "sum_axes":
        ax = [a - 1 for a in case["axes"]]
        out.append(("list", ops, lambda: X.sum(ax), dt, s))
        if len(ax) == 1:
            out.append(("int", ops, lambda: X.sum(ax[0]), dt, s))
    elif op == "dot_axes":
        ax = [a - 1 for a in case["axes"]]
        out.append(("", ops, lambda: tt.dot(X, Y, ax), dt, s))
    elif op == "index":
        ix = py_index(case["e"])
        out.append(("tuple", ops, lambda: X[ix], dt, s))
        if len(ix) == 1:
            out.append(("bare", ops, lambda: X[ix[0]], dt, s))
    elif op == "index_m":
        ix = py_index(case["e"])
        out.append(("tuple", ops, lambda: X[ix], dt, s))
    elif op == "apply_mask":
        rows = torch.tensor([[v - 1 for v in r] for r in case["rows"]], dtype=torch.int64)
        out.append(("", ops, lambda: X.apply_mask(rows), dt, s))
    elif op == "cat":
        out.append(("tuple", ops, lambda: tt.cat((X, Y), case["ax"] - 1), dt, s))
        out.append(("list", ops, lambda: tt.cat([X, Y], case["ax"] - 1), dt, s))
    elif op == "cat3":
        out.append(("", ops, lambda: tt.cat((X, Y, Z), case["ax"] - 1), dt, s))
    elif op in ("pad", "pad_m"):
        w = tuple((int(a), int(b)) for a, b in case["w"])
        out.append(("", ops, lambda: tt.pad(X, w, value=float(case["val"])), dt, s))
    elif op == "mprod":
        modes = [m - 1 for m in case["modes"]]
        mats = [fill.dense_fill([(S["I"][m] % 3) + 1, S["I"][m]], S["f"] + m + 2, S["cx"], dt) for m in modes]
        if case["aslist"]:
            out.append(("list", ops, lambda: X.mprod(mats, modes), dt, s))
            if len(modes) >= 2:          # the pairs in another order: products over different modes commute
                out.append(("list-reversed", ops, lambda: X.mprod(mats[::-1], modes[::-1]), dt, s))
        else:
            out.append(("single", ops, lambda: X.mprod(mats[0], modes[0]), dt, s))
    elif op == "mprod_rep":
        m = case["p"] - 1
        n = S["I"][m]
        Q1 = fill.dense_fill([n, n], S["f"] + 20, S["cx"], dt)
        Q2 = fill.dense_fill([(n % 3) + 1, n], S["f"] + 21, S["cx"], dt)
        out.append(("list", ops, lambda: X.mprod([Q1, Q2], [m, m]), dt, s))
    elif op in ("ones", "zeros"):
        shp = [int(n) for n in S["I"]] if S["k"] == "tt" else [(int(m), int(n)) for m, n in zip(S["I"], S["J"])]
        fn = tt.ones if op == "ones" else tt.zeros
        out.append(("", [], lambda: fn(shp, dtype=dt), dt, s))
    elif op == "eye":
        out.append(("", [], lambda: tt.eye([int(n) for n in S["I"]], dtype=dt), dt, s))
    elif op == "rank1":
        vs = [fill.dense_fill([S["I"][p]], S["f"] + p + 1, S["cx"], dt) for p in range(len(S["I"]))]
        out.append(("", [], lambda: tt.rank1TT(vs), dt, s))
    elif op == "meshgrid_same":
        v = fill.dense_fill([S["I"][0]], S["f"] + 1, S["cx"], dt)
        out.append(("", [], lambda: tt.meshgrid([v] * len(S["I"]))[case["q"] - 1], dt, s))
    elif op == "meshgrid":
        vs = [fill.dense_fill([S["I"][p]], S["f"] + p + 1, S["cx"], dt) for p in range(len(S["I"]))]
        out.append(("", [], lambda: tt.meshgrid(vs)[case["q"] - 1], dt, s))
    else:
        raise ValueError("no binding for model operation %r" % op)
    if tiny:
        return [("tiny" + ("-" + lb if lb else ""), o, th, d_, s_) for lb, o, th, d_, s_ in out]
    deg = scale_deg(case)
    if deg is not None and opts.get("tiny", True) and not (real == "f32" and deg >= 3):
        out += variants(case, real, opts, tiny=True)
    if op in TRACKABLE and opts.get("tracked", True):
        # the same calls with autograd tracking switched on for every operand (other code path in norm)
        X2, Y2, Z2, _ = mk()
        for o in (X2, Y2, Z2):
            if o is not None:
                tt.grad.watch(o)
        ops2 = [o for o in (X2, Y2, Z2) if o is not None]
        t2 = {"norm2": lambda: X2.norm(True), "norm": lambda: X2.norm(), "sum_all": lambda: X2.sum(),
              "dot": lambda: tt.dot(X2, Y2), "bilinear": lambda: tt.bilinear_form(Y2, X2, Z2),
              "sum_axes": lambda: X2.sum([a - 1 for a in case["axes"]]),
              "dot_axes": lambda: tt.dot(X2, Y2, [a - 1 for a in case["axes"]])}[op]
        out.append(("tracked", ops2, t2, dt, s))
    return out


def key_of(case, cls, extra=None):
    x = case["x"]
    k = {"op": case["op"], "cls": cls, "kind": x["k"], "order": len(x["I"]), "cx": x["cx"],
         "has1": 1 in x["I"] or (x["k"] == "ttm" and 1 in x["J"])}
    if "s" in case:
        k["scalar"] = case["s"]["kind"]
        k["szero"] = case["s"]["re"] == 0 and case["s"]["im"] == 0
    if "val" in case:
        k["valnz"] = case["val"] != 0
        k["npad"] = len(case["w"])
        k["rank1"] = max(x["R"]) == 1
    if "e" in case:
        ts = [it["t"] for it in case["e"]]
        k["has_int"] = "i" in ts
        k["has_none"] = "n" in ts
        k["has_ell"] = "e" in ts
        k["nitems"] = len(ts)
    if extra:
        k.update(extra)
    return k


def handler(st, opts):
    case, res = st["case"], st["res"]
    if case["op"] == "init":
        return None
    prop = opts.get("prop", "C03")
    reals = ["f64", "f32"] if not case["x"]["cx"] else ["f64"]
    if opts.get("f32") is False or case.get("s", {}).get("kind") == "intbig":
        reals = ["f64"]           # 2^24+1 is not a float32 number
    problems, stats = [], {}
    for real in reals:
        problems += run_one(case, res, real, prop, stats, opts)
    stats["behaviours"] = 1
    sample = {"case": case, "expected": {k: res[k] for k in ("t", "d", "sh", "status", "re") if k in res}}
    return {"problems": problems, "stats": stats, "sample": sample}


def P(prop, cls, case, msg, real, extra=None):
    return {"prop": prop, "cls": cls, "op": case["op"], "msg": msg, "key": key_of(case, cls, extra), "case": case, "dtype": real}


def nontrivial(case):
    x = case["x"]
    return len(x["I"]) >= 2 and (max(x["R"]) >= 2 or ("y" in case and isinstance(case["y"], dict) and case["y"].get("I") != x["I"]))


def run_one(case, res, real, prop, stats, opts=None):
    problems = []
    if real == "f64" and nontrivial(case):
        stats["nontrivial"] = stats.get("nontrivial", 0) + 1
    for label, ops, thunk, dt, s in variants(case, real, opts or {}):
        ps = _run_variant(case, res, real, prop, stats, label, ops, thunk, dt, s)
        for p in ps:
            p["variant"] = label
            p["key"]["variant"] = label
            p["replay"] = {"case": case, "res": res}
        problems += ps
    return problems


def _close(got, exp, dt, tol):
    if tol == "exact":
        return torch.equal(got, exp)
    eps = ROUNDOFF[dt]
    scale = max(1.0, float(exp.abs().max().item()) if exp.numel() else 1.0)
    return bool(((got - exp).abs().max() <= eps * scale * 10).item()) if exp.numel() else True


def _run_variant(case, res, real, prop, stats, label, ops, thunk, dt, s):
    problems = []
    snap = snapshot(ops)
    stats["calls"] = stats.get("calls", 0) + 1
    stats["op:" + case["op"]] = stats.get("op:" + case["op"], 0) + 1
    try:
        out = thunk()
        exc = None
    except Exception as e:   # noqa
        out, exc = None, e
    for n, why in changed(ops, snap):
        problems.append(P("C06", "operand-changed", case, "operand %d changed by %s: %s" % (n, case["op"], "; ".join(why)), real, {"operand": n}))
    for n, o in enumerate(ops):
        pr = project.wf_problems(o)
        if pr:
            problems.append(P("C05", "ill-formed", case, "operand %d ill-formed after %s: %s" % (n, case["op"], pr), real, {"operand": n}))
    if exc is not None:
        en = type(exc).__name__
        stats["exc:" + en] = stats.get("exc:" + en, 0) + 1
        if res["status"] == "must":
            problems.append(P(prop, "exception", case, "%s raised %s: %s" % (case["op"], en, str(exc)[:200]), real, {"exc": en}))
        else:
            stats["may-raised"] = stats.get("may-raised", 0) + 1
        return problems
    tt = _tt()
    t = res["t"]
    tol = res.get("tol", "exact")
    tracked = label == "tracked"
    back = 2.0 ** (SCALE_EXP * scale_deg(case)) if label.startswith("tiny") else None      # exact undo of the operand scaling
    if back is not None and case["op"] == "norm":
        back = 2.0 ** SCALE_EXP
    if t == "num":
        if isinstance(out, tt.TT):
            problems.append(P(prop, "kind", case, "expected a number, got a TT object with N=%s" % out.N, real))
            return problems
        if torch.is_tensor(out):
            if out.dim() != 0:
                problems.append(P(prop, "kind", case, "expected a scalar (0-d), got a tensor of shape %s" % list(out.shape), real))
                if out.numel() != 1:
                    return problems
            v = complex(out.detach().reshape(-1)[0].item())
        else:
            try:
                v = complex(out)
            except Exception:   # noqa
                problems.append(P(prop, "kind", case, "expected a number, got %s" % type(out).__name__, real))
                return problems
        if back is not None:
            v = v * back
        e = complex(res["re"], res["im"])
        if case["op"] == "norm":
            e = complex(abs(e) ** 0.5, 0)
        exact = case["op"] not in ("norm",) and not (case["op"] == "norm2" and not tracked)
        if exact:
            ok = v == e
        else:
            ok = abs(v - e) <= ROUNDOFF[dt] * 10 * max(1.0, abs(e))
        if not ok:
            problems.append(P(prop, "value", case, "%s returned %r, dense value is %r" % (case["op"], v, e), real))
        return problems
    exp = expected_dense(res, dt)
    if t == "dense":
        if not torch.is_tensor(out):
            problems.append(P(prop, "kind", case, "expected a dense tensor, got %s" % type(out).__name__, real))
            return problems
        if list(out.shape) != list(res["sh"]):
            problems.append(P(prop, "shape", case, "dense shape %s, expected %s" % (list(out.shape), list(res["sh"])), real))
        elif out.dtype != dt:
            problems.append(P(prop, "dtype", case, "dtype %s, expected %s" % (out.dtype, dt), real))
        elif not torch.equal(out.detach() * back if back is not None else out.detach(), exp):
            problems.append(P(prop, "value", case, "dense value differs, max |diff| %.3g" % (out.detach() - exp).abs().max().item(), real))
        return problems
    # object results ("obj": ranks prescribed; "val": only kind, shape, value - ranks if the model gives R)
    if not isinstance(out, tt.TT):
        what = "a tensor of shape %s" % list(out.shape) if torch.is_tensor(out) else type(out).__name__
        problems.append(P(prop, "kind", case, "expected a TT object with shape %s, got %s" % (list(res["d"]["N"]), what), real))
        return problems
    ed = res["d"]
    try:        # what the result *reports* about itself is part of "the same resulting shape"
        rep = (bool(out.is_ttm), [int(n) for n in out.N], [int(m) for m in out.M] if out.is_ttm else [])
        if rep != (ed["k"] == "ttm", list(ed["N"]), list(ed["M"])):
            problems.append(P(prop, "shape-reported", case, "result reports is_ttm=%s N=%s M=%s, expected %s N=%s M=%s" % (
                rep[0], rep[1], rep[2], ed["k"], list(ed["N"]), list(ed["M"])), real))
    except Exception as e:   # noqa
        problems.append(P(prop, "shape-reported", case, "reading N / M of the result raised %s" % type(e).__name__, real))
    wf = project.wf_problems(out)
    if wf:
        problems.append(P("C05", "ill-formed", case, "result of %s ill-formed: %s" % (case["op"], wf), real, {"operand": "result"}))
        return problems
    d = project.derived_desc(out.cores)
    if d["k"] != ed["k"] or d["N"] != list(ed["N"]) or d["M"] != list(ed["M"]):
        problems.append(P(prop, "shape", case, "result is %s N=%s M=%s, expected %s N=%s M=%s" % (
            d["k"], d["N"], d["M"], ed["k"], list(ed["N"]), list(ed["M"])), real))
        return problems
    wantR = list(ed["R"]) if t == "obj" else (list(res["R"]) if "R" in res else None)
    if wantR is not None and d["R"] != wantR:
        problems.append(P(prop, "ranks", case, "result ranks %s, documented law gives %s" % (d["R"], wantR), real))
    dts = {c.dtype for c in out.cores}
    if dts != {dt}:
        problems.append(P(prop, "dtype", case, "result dtype %s, operands %s" % (dts, dt), real))
        if len(dts) != 1:
            return problems          # cores of different dtypes cannot even be contracted
    got = project.dense(out.cores)
    if case["op"] == "div_s":
        got = got * s
    if case.get("s", {}).get("kind") == "tiny":
        got = got * 2.0 ** 100          # exact: undo the power-of-two scaling of the scalar
    if back is not None:
        got = got * back
    got = got.to(dt) if got.dtype != dt else got
    if list(got.shape) != list(exp.shape):
        problems.append(P(prop, "shape", case, "dense shape %s expected %s" % (list(got.shape), list(exp.shape)), real))
    elif not _close(got, exp, dt, tol):
        problems.append(P(prop, "value", case, "dense value differs from the model: max |diff| %.6g (|expected| max %.6g)" % (
            (got - exp).abs().max().item(), exp.abs().max().item()), real))
    try:
        f = out.full().detach()
        if list(f.shape) != list(got.shape) or not torch.equal(f, project.dense(out.cores)):
            problems.append(P(prop, "full", case, "full() disagrees with the contraction of the result's own cores", real))
    except Exception as e:  # noqa
        problems.append(P(prop, "full", case, "full() of the result raised %s: %s" % (type(e).__name__, e), real))
    return problems


def rerun(payload):
    return run_one(payload["case"], payload["res"], payload.get("dtype", "f64"), payload.get("prop", "C03"), {}, {})
