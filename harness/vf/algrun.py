"""Replay of spec/Alg.tla states (one public operation on canonical integer operands) against torchtt.
For every state: build the operands with the model's fill, perform the call through the public API,
project the result with the harness's own contraction and compare with the TLC-computed outcome."""
import numpy as np
import torch

from . import fill, project

LIB_EXC = ("ShapeMismatch", "RankMismatch", "IncompatibleTypes", "InvalidArguments", "NotImplementedError")


def _tt():
    import torchtt
    return torchtt


def build(S, real="f64"):
    return _tt().TT(fill.mk_cores(S, real=real))


def scalar_value(s, dt):
    re, im, kind = s["re"], s["im"], s["kind"]
    if kind == "int": return int(re)
    if kind == "float": return float(re)
    if kind == "bool": return bool(re)
    if kind == "npf64": return np.float64(re)
    if kind == "npf32": return np.float32(re)
    if kind == "npi64": return np.int64(re)
    if kind == "t0d": return torch.tensor(complex(re, im) if dt.is_complex else float(re), dtype=dt)
    if kind == "t1": return torch.tensor([complex(re, im) if dt.is_complex else float(re)], dtype=dt)
    if kind == "complex": return complex(re, im)
    raise ValueError(kind)


def expected_dense(res, dt):
    re = np.array(res["re"], dtype=np.float64).reshape(res["sh"]) if len(res["sh"]) else np.array(res["re"], dtype=np.float64).reshape(())
    if dt.is_complex:
        im = np.array(res["im"], dtype=np.float64).reshape(re.shape)
        return torch.tensor(re + 1j * im, dtype=dt)
    return torch.tensor(re, dtype=dt)


def snapshot(objs):
    """bitwise snapshot of operands for the C06 comparison"""
    snap = []
    for o in objs:
        snap.append({"cores": [c.detach().clone() for c in o.cores], "ver": project.versions(o.cores),
                     "N": list(o.N), "R": list(o.R), "ttm": o.is_ttm, "M": list(o.M) if o.is_ttm else [],
                     "ids": [id(c) for c in o.cores], "dt": [c.dtype for c in o.cores]})
    return snap


def changed(objs, snap):
    out = []
    for n, (o, s) in enumerate(zip(objs, snap)):
        why = []
        if len(o.cores) != len(s["cores"]):
            why.append("number of cores %d -> %d" % (len(s["cores"]), len(o.cores)))
        else:
            for k, (c, c0) in enumerate(zip(o.cores, s["cores"])):
                if c.shape != c0.shape or c.dtype != c0.dtype:
                    why.append("core %d shape/dtype %s %s -> %s %s" % (k, tuple(c0.shape), c0.dtype, tuple(c.shape), c.dtype))
                elif not torch.equal(c.detach(), c0):
                    why.append("core %d value changed (max |diff| %.3g)" % (k, (c.detach() - c0).abs().max().item()))
        if list(o.N) != s["N"] or list(o.R) != s["R"] or o.is_ttm != s["ttm"]:
            why.append("metadata N/R %s %s -> %s %s" % (s["N"], s["R"], o.N, o.R))
        if why:
            out.append((n, why))
    return out


# ------------------------------------------------------------------ the calls
def perform(case, real):
    """returns (operands list, thunk) - the thunk performs the public call"""
    tt = _tt()
    op = case["op"]
    X = build(case["x"], real)
    dt = X.cores[0].dtype
    if "y" in case and isinstance(case["y"], dict) and "I" in case["y"]:
        Y = build(case["y"], real)
    else:
        Y = None
    s = scalar_value(case["s"], dt) if "s" in case else None
    ops = [o for o in (X, Y) if o is not None]
    table = {
        "add": lambda: X + Y, "sub": lambda: X - Y, "mul": lambda: X * Y,
        "add_rev": lambda: X + Y, "sub_rev": lambda: X - Y, "mul_rev": lambda: X * Y,
        "neg": lambda: -X, "pos": lambda: +X, "conj": lambda: X.conj(), "full": lambda: X.full(),
        "clone": lambda: X.clone(), "kron_none": lambda: X ** None, "to_ttm": lambda: X.to_ttm(),
        "diag_embed": lambda: tt.diag(X), "diag_extract": lambda: tt.diag(X), "t": lambda: X.t(),
        "add_s": lambda: X + s, "radd_s": lambda: s + X, "sub_s": lambda: X - s, "rsub_s": lambda: s - X,
        "mul_s": lambda: X * s, "rmul_s": lambda: s * X, "div_s": lambda: X / s,
        "kron": lambda: X ** Y,
        "matvec": lambda: X @ Y, "vecmat": lambda: X @ Y, "matmat": lambda: X @ Y,
    }
    if op == "matdense":
        D = fill.dense_fill(list(case["bsh"]) + list(case["x"]["J"]), case["f"], case["x"]["cx"], dt)
        return ops, (lambda: X @ D), dt, s
    if op == "kron" and case.get("via") == "fn":
        return ops, (lambda: tt.kron(X, Y)), dt, s
    return ops, table[op], dt, s


def key_of(case, cls, extra=None):
    k = {"op": case["op"], "cls": cls, "kind": case["x"]["k"], "order": len(case["x"]["I"]), "cx": case["x"]["cx"]}
    if "s" in case:
        k["scalar"] = case["s"]["kind"]
        k["szero"] = case["s"]["re"] == 0 and case["s"]["im"] == 0
    if extra:
        k.update(extra)
    return k


def handler(st, opts):
    case, res = st["case"], st["res"]
    if case["op"] == "init":
        return None
    prop = opts.get("prop", "C03")
    reals = ["f64", "f32"] if not case["x"]["cx"] else ["f64"]
    if opts.get("f32") is False:
        reals = ["f64"]
    problems, stats = [], {}
    for real in reals:
        problems += run_one(case, res, real, prop, stats)
    sample = {"case": case, "expected": {k: res[k] for k in ("t", "d", "sh", "status") if k in res}}
    return {"problems": problems, "stats": stats, "sample": sample}


def P(prop, cls, case, msg, real, extra=None):
    return {"prop": prop, "cls": cls, "op": case["op"], "msg": msg, "key": key_of(case, cls, extra), "case": case, "dtype": real}


def nontrivial(case):
    x = case["x"]
    return len(x["I"]) >= 2 and (max(x["R"]) >= 2 or ("y" in case and isinstance(case["y"], dict) and case["y"].get("I") != x["I"]))


def run_one(case, res, real, prop, stats):
    problems = _run_one(case, res, real, prop, stats)
    for p in problems:
        p["replay"] = {"case": case, "res": res}
    return problems


def _run_one(case, res, real, prop, stats):
    problems = []
    ops, thunk, dt, s = perform(case, real)
    snap = snapshot(ops)
    stats["calls"] = stats.get("calls", 0) + 1
    if real == "f64" and nontrivial(case):
        stats["nontrivial"] = stats.get("nontrivial", 0) + 1
    stats["op:" + case["op"]] = stats.get("op:" + case["op"], 0) + 1
    try:
        out = thunk()
        exc = None
    except Exception as e:   # noqa
        out, exc = None, e
    # ---- C06: operands untouched, whatever the outcome
    for n, why in changed(ops, snap):
        problems.append(P("C06", "operand-changed", case, "operand %d changed by %s: %s" % (n, case["op"], "; ".join(why)), real,
                          {"operand": n}))
    # ---- C05: operands still well formed
    for n, o in enumerate(ops):
        pr = project.wf_problems(o)
        if pr:
            problems.append(P("C05", "ill-formed", case, "operand %d ill-formed after %s: %s" % (n, case["op"], pr), real, {"operand": n}))
    if exc is not None:
        en = type(exc).__name__
        stats["exc:" + en] = stats.get("exc:" + en, 0) + 1
        if res["status"] == "must":
            problems.append(P(prop, "exception", case, "%s raised %s: %s" % (case["op"], en, str(exc)[:200]), real, {"exc": en}))
        else:
            stats["may-raised"] = stats.get("may-raised", 0) + 1
        return problems
    tt = _tt()
    t = res["t"]
    exp = expected_dense(res, dt)
    if t == "dense":
        if not torch.is_tensor(out):
            problems.append(P(prop, "kind", case, "expected a dense tensor, got %s" % type(out).__name__, real))
            return problems
        if list(out.shape) != list(res["sh"]):
            problems.append(P(prop, "shape", case, "dense shape %s, expected %s" % (list(out.shape), res["sh"]), real))
        elif out.dtype != dt:
            problems.append(P(prop, "dtype", case, "dtype %s, expected %s" % (out.dtype, dt), real))
        elif not torch.equal(out, exp):
            problems.append(P(prop, "value", case, "dense value differs, max |diff| %.3g" % (out - exp).abs().max().item(), real))
        return problems
    if t == "num":
        return problems
    # object results
    if not isinstance(out, tt.TT):
        problems.append(P(prop, "kind", case, "expected a TT object, got %s" % type(out).__name__, real))
        return problems
    wf = project.wf_problems(out)
    if wf:
        problems.append(P("C05", "ill-formed", case, "result of %s ill-formed: %s" % (case["op"], wf), real, {"operand": "result"}))
        return problems
    d = project.derived_desc(out.cores)
    ed = res["d"]
    if d["k"] != ed["k"] or d["N"] != list(ed["N"]) or d["M"] != list(ed["M"]):
        problems.append(P(prop, "shape", case, "result is %s N=%s M=%s, expected %s N=%s M=%s" % (d["k"], d["N"], d["M"], ed["k"], list(ed["N"]), list(ed["M"])), real))
        return problems
    if t == "obj" and d["R"] != list(ed["R"]):
        problems.append(P(prop, "ranks", case, "result ranks %s, documented law gives %s" % (d["R"], list(ed["R"])), real))
    dts = {c.dtype for c in out.cores}
    if dts != {dt}:
        problems.append(P(prop, "dtype", case, "result dtype %s, operands %s" % (dts, dt), real))
    got = project.dense(out.cores)
    if case["op"] == "div_s":
        got = got * s
    got = got.to(dt) if got.dtype != dt else got
    if list(got.shape) != list(exp.shape):
        problems.append(P(prop, "shape", case, "dense shape %s expected %s" % (list(got.shape), list(exp.shape)), real))
    elif not torch.equal(got, exp):
        problems.append(P(prop, "value", case, "dense value differs from the model: max |diff| %.6g (|expected| max %.6g)" % ((got - exp).abs().max().item(), exp.abs().max().item()), real))
    # full() separately against the harness contraction
    try:
        f = out.full()
        g2 = project.dense(out.cores)
        if list(f.shape) != list(g2.shape) or not torch.equal(f, g2):
            problems.append(P(prop, "full", case, "full() disagrees with the contraction of the result's own cores", real))
    except Exception as e:  # noqa
        problems.append(P(prop, "full", case, "full() of the result raised %s: %s" % (type(e).__name__, e), real))
    # C06: result must not alias operand storage in a way that lets a later write through... (recorded as stat only)
    return problems
