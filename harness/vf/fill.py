"""The canonical integer fill of spec/TTCore.tla (FillRe / FillIm / Mk), implemented for torch.
The model and the implementation are run on identical data through this one formula."""
import numpy as np
import torch

DT = {"f64": torch.float64, "f32": torch.float32, "c128": torch.complex128, "c64": torch.complex64}


def fill_re(f, p, a, i, j, b):
    if f == 0:
        return 0 * (a + i + j + b)
    return ((f * 29 + p * p * 13 + a * a * 7 + i * i * 3 + j * 5 + b * b * 11 + a * i + 2 * i * b + a * b * j + p * i * j) % 7) - 3


def fill_im(f, p, a, i, j, b):
    if f == 0:
        return 0 * (a + i + j + b)
    return ((f * 23 + p * 5 + a * 3 + i * i * 7 + j * j * 11 + b * 13 + a * i * b + p * j) % 5) - 2


def core_array(f, cx, p, r1, m, n, r2):
    """numpy array [r1, m, n, r2] of the model's core p (1-based p and indices)."""
    a, i, j, b = np.meshgrid(np.arange(1, r1 + 1), np.arange(1, m + 1), np.arange(1, n + 1), np.arange(1, r2 + 1), indexing="ij")
    re = fill_re(f, p, a, i, j, b).astype(np.float64)
    if cx:
        return re + 1j * fill_im(f, p, a, i, j, b)
    return re


def dtype_of(S, real="f64", cplx="c128"):
    return DT[cplx] if S["cx"] else DT[real]


def mk_cores(S, real="f64", cplx="c128"):
    """torch cores of structure S = {k, I, J, R, f, cx}: 3-d cores for a tensor, 4-d for an operator."""
    dt = dtype_of(S, real, cplx)
    cores = []
    for p in range(len(S["I"])):
        c = core_array(S["f"], S["cx"], p + 1, S["R"][p], S["I"][p], S["J"][p], S["R"][p + 1])
        t = torch.tensor(c, dtype=dt)
        if S["k"] == "tt":
            t = t[:, :, 0, :].contiguous()
        cores.append(t)
    return cores


def dense_fill(sh, f, cx, dt):
    """Alg.DenseFill: entry at flat position q (0-based) = FillRe(f, len(sh), 1, q+1, 1, 1)."""
    n = int(np.prod(sh)) if len(sh) else 1
    q = np.arange(1, n + 1)
    re = fill_re(f, len(sh), 1, q, 1, 1).astype(np.float64)
    v = re + 1j * fill_im(f, len(sh), 1, q, 1, 1) if cx else re
    return torch.tensor(v.reshape(sh), dtype=dt)
