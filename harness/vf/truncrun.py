"""Replay of spec/RankChop.tla and spec/Trunc.tla against torchtt (properties C01, C02).

RankChop states: the real rank_chop is called on the exact integer spectrum / dyadic eps of the state and its
answer is checked against the contract (verdict) and against the transcription (drift note).

Trunc states (terminal, nested): the behaviour is realised as concrete arrays whose unfoldings have exactly the
model's spectra (superdiagonal tensors; variants: numpy source, inserted singleton modes, operator shape, unit
complex phases, float32, orthogonally rotated, tall unfolding) and torchtt.TT(...) / x.round(...) is run on them.
Verdict = the property's own statements: requested shape, boundary ranks 1, ranks <= rmax, ranks <= exact
unfolding rank (eps>0), and ||A - full|| <= eps ||A|| when no cap was binding."""
import math, itertools
import numpy as np
import torch

from . import project

BIG = 1000
U = {torch.float64: 2.0 ** -53, torch.float32: 2.0 ** -24, torch.complex128: 2.0 ** -53, torch.complex64: 2.0 ** -24}


ZERO_L = -(2 ** 30)


def L(x):
    """floor(1024 log2 x), the integer scale used by spec/TraceTrunc.tla"""
    return int(math.floor(1024.0 * math.log2(x))) if x > 0 and math.isfinite(x) else ZERO_L


def record_trunc(routine, d, eps, fn):
    """run fn() with the chop hooks of torchtt/_decomposition.py captured; returns (result, events of `routine`)"""
    from torchtt import _verif
    ev = []
    _verif.install(lambda name, f: ev.append(f) if name == "chop" and f.get("routine") == routine else None)
    try:
        out = fn()
    finally:
        _verif.install(None)
    return out, ev


def make_trace(routine, d, eps, total2, err2, ev, label):
    return {"routine": routine, "d": int(d), "eps2_L": L(eps * eps), "total_L": L(total2), "err2_L": L(err2), "label": label,
            "ev": [{"bond": int(e["bond"]), "nsv": int(e["nsv"]), "cap": int(min(e["cap"], 2 ** 31 - 1)), "r": int(e["r"]),
                    "tail_L": L(e["tail2"]), "norm_L": L(e["norm2"]), "epsb2_L": L(e["eps_bond"] ** 2),
                    "thr_L": L(e["eps_bond"] ** 2 * e["norm2"])} for e in ev]}


def handler_chop(st, opts):
    if st["rpy"] == 0:
        return None
    from torchtt._decomposition import rank_chop
    prop = opts.get("prop", "C01")
    e, (thn, thd) = st["e"], st["th"]
    s = np.array([math.isqrt(v) for v in e], dtype=np.float64)
    assert all(math.isqrt(v) ** 2 == v for v in e)
    k = math.isqrt(thn)
    assert k * k == thn and thd == 4
    eps = k / 2.0
    problems, stats = [], {"calls": 1, "behaviours": 1, "nontrivial": 1 if len(e) >= 2 and thn > 0 else 0}
    key = {"op": "rank_chop", "n": len(e)}

    def P(cls, msg):
        kk = dict(key); kk["cls"] = cls
        return {"prop": prop, "cls": cls, "op": "rank_chop", "key": kk, "msg": "rank_chop(s=%s, eps=%s): %s" % (list(s), eps, msg),
                "replay": {"engine": "vf.truncrun", "kind": "chop", "state": st, "prop": prop}}
    try:
        r = int(rank_chop(s.copy(), eps))
    except Exception as ex:  # noqa
        return {"problems": [P("exception", "raised %s: %s" % (type(ex).__name__, ex))], "stats": stats}
    tail = float(np.sum(s[r:] ** 2)) if 0 <= r <= len(s) else None
    if not (1 <= r <= len(s)):
        problems.append(P("range", "returned %d, outside 1..%d" % (r, len(s))))
    else:
        if tail > eps * eps:
            problems.append(P("accuracy", "returned %d: discarded energy %g exceeds eps^2 = %g" % (r, tail, eps * eps)))
        if thn > 0 and r > 1 and float(np.sum(s[r - 1:] ** 2)) <= eps * eps:
            problems.append(P("minimal", "returned %d although %d values already meet the threshold (rank above what is needed)" % (r, r - 1)))
    if r != st["rpy"]:
        stats["drift-from-transcription"] = 1
    return {"problems": problems, "stats": stats, "sample": {"s": list(map(float, s)), "eps": eps, "model_rank": st["rpy"], "real_rank": r}}


def handler_chop_cpp(st, opts):
    """the same states through the compiled rank_chop (cpp/ortho.h, exposed by harness/cpp/vfchop.cpp): it stops at the first r whose
    tail energy is >= eps^2, so the kept rank meets the threshold and is minimal up to exact ties"""
    if st["rcpp"] == 0:
        return None
    import vfchop
    e, (thn, thd) = st["e"], st["th"]
    if thn <= 0 or sum(e) == 0:
        return None                      # (eps <= 0 and the zero spectrum are outside the C11 domain of the compiled backend)
    s = np.array([math.isqrt(v) for v in e], dtype=np.float64)
    k = math.isqrt(thn)
    eps = k / 2.0
    problems, stats = [], {"calls": 1, "behaviours": 1, "nontrivial": 1 if len(e) >= 2 else 0}

    def P(cls, msg):
        return {"prop": "C17", "cls": cls, "op": "rank_chop_cpp", "key": {"op": "rank_chop_cpp", "cls": cls, "n": len(e)},
                "msg": "compiled rank_chop(s=%s, eps=%s): %s" % (list(s), eps, msg),
                "replay": {"engine": "vf.truncrun", "kind": "chop_cpp", "state": st, "prop": "C17"}}
    try:
        r = int(vfchop.rank_chop(torch.tensor(s.copy(), dtype=torch.float64), float(eps)))
    except Exception as ex:  # noqa
        return {"problems": [P("exception", "raised %s: %s" % (type(ex).__name__, ex))], "stats": stats}
    if not (1 <= r <= len(s)):
        problems.append(P("range", "returned %d, outside 1..%d" % (r, len(s))))
    else:
        tail = float(np.sum(s[r:] ** 2))
        if tail > eps * eps:
            problems.append(P("accuracy", "returned %d: discarded energy %g exceeds eps^2 = %g" % (r, tail, eps * eps)))
        if r > 1 and float(np.sum(s[r - 1:] ** 2)) < eps * eps:
            problems.append(P("minimal", "returned %d although %d values already stay strictly below the threshold" % (r, r - 1)))
    if r != st["rcpp"]:
        stats["drift-from-transcription"] = 1
    return {"problems": problems, "stats": stats, "sample": {"s": list(map(float, s)), "eps": eps, "model_rank": st["rcpp"], "real_rank": r}}


# ------------------------------------------------------------------ realisations
def superdiag(sig, shape, dtype=torch.float64):
    T = torch.zeros(shape, dtype=dtype)
    for k, v in enumerate(sig):
        if all(k < n for n in shape if n > 1):
            T[tuple(k if n > 1 else 0 for n in shape)] = v
    return T


def rand_orth(n, gen, dtype):
    q, _ = torch.linalg.qr(torch.randn(n, n, generator=gen, dtype=torch.float64))
    return q.to(dtype)


def rmax_arg(caps, order):
    """caps (processing order = bond order for TT-SVD) -> rmax argument"""
    if all(c >= BIG for c in caps):
        return None
    if len(set(caps)) == 1:
        return int(caps[0])
    return [1] + [int(c) if c < BIG else 10 ** 6 for c in caps] + [1]


def check_result(P, tt, X, want_kind, want_N, want_M, caps_by_bond, rho, eps, capped, A_dense, dt, label, exact_rank_check=True):
    problems = []
    if not isinstance(X, tt.TT):
        return [P("kind", "%s: returned %s" % (label, type(X).__name__))]
    # "an object of exactly the requested shape": what the cores describe and what the object reports are both compared
    # with the request under the operation's own property; remaining inconsistencies are well-formedness matters (C05)
    try:
        d0 = project.derived_desc(X.cores)
        if d0["k"] != want_kind or d0["N"] != want_N or d0["M"] != want_M:
            return [P("shape", "%s: the cores describe %s N=%s M=%s, requested %s N=%s M=%s" % (label, d0["k"], d0["N"], d0["M"], want_kind, want_N, want_M))]
        rep = ("ttm" if X.is_ttm else "tt", [int(n) for n in X.N], [int(m) for m in X.M] if X.is_ttm else [])
        if rep != (want_kind, list(want_N), list(want_M)):
            return [P("shape", "%s: the object reports %s N=%s M=%s, requested %s N=%s M=%s" % (label, rep[0], rep[1], rep[2], want_kind, want_N, want_M))]
    except Exception:   # noqa  cores that are not even a chain: reported below
        pass
    wf = project.wf_problems(X)
    if wf:
        return [dict(P("ill-formed", "%s: %s" % (label, wf)), prop="C05")]
    d = project.derived_desc(X.cores)
    if d["k"] != want_kind or d["N"] != want_N or d["M"] != want_M:
        return [P("shape", "%s: result %s N=%s M=%s, requested %s N=%s M=%s" % (label, d["k"], d["N"], d["M"], want_kind, want_N, want_M))]
    R = d["R"]
    for b, c in enumerate(caps_by_bond):
        if R[b + 1] > c:
            problems.append(P("rank-cap", "%s: rank %d at bond %d exceeds rmax %d (R=%s)" % (label, R[b + 1], b + 1, c, R)))
            break
    if exact_rank_check and eps >= 1e4 * U[dt]:
        for b in range(len(R) - 2):
            if R[b + 1] > max(1, rho[b]):
                problems.append(P("rank-exact", "%s: rank %d at bond %d exceeds the exact unfolding rank %d (R=%s)" % (label, R[b + 1], b + 1, rho[b], R)))
                break
    if not capped:
        got = project.dense(X.cores)
        nrm = torch.linalg.norm(A_dense).item()
        err = torch.linalg.norm(got.reshape(A_dense.shape) - A_dense).item()
        # roundoff allowance relative to the magnitude of the intermediate quantities (contraction of |cores|), so that
        # representations with cancellation are not held to an accuracy floating point cannot deliver
        mag = max(nrm, torch.linalg.norm(project.dense([c.abs() for c in X.cores])).item(), 1e-300)
        slack = 200 * U[dt] * math.sqrt(max(1, A_dense.numel())) * mag
        if err > eps * nrm * (1 + 1e-9) + slack:
            problems.append(P("accuracy", "%s: ||A - full|| = %.6g > eps ||A|| = %.6g (eps=%.4g, R=%s)" % (label, err, eps * nrm, eps, R)))
    return problems


def handler_trunc(st, opts):
    cfg = st["cfg"]
    d = cfg["d"]
    if st["i"] != d or not st["nested"]:
        return None
    mode = opts.get("mode", "svd")
    return (svd_case if mode == "svd" else round_case)(st, opts)


def _first_spectrum(st):
    # the initial spectrum is not kept in the terminal state; it is recovered from the ledger only for nested
    # behaviours: energies are the kept prefix plus the discarded tails - so the harness needs it logged: use 'spec0'
    return st["spec0"]


def svd_case(st, opts):
    import torchtt as tt
    prop = "C01"
    cfg, infl = st["cfg"], st["infl"]
    d, p, q = cfg["d"], cfg["p"], cfg["q"]
    caps = [int(c) for c in cfg["caps"]]
    eps = math.sqrt(p / q)
    spec0 = list(st["spec0"])
    sig = [math.sqrt(v) for v in spec0]
    n = len(spec0) + infl
    rho_in = sum(1 for v in spec0 if v > 0)
    capped = st["capped"]
    seed = opts.get("seed", 0)
    problems, stats = [], {"behaviours": 1}
    key = {"op": "TT(dense)", "d": d, "eps2": "%d/%d" % (p, q), "capped": capped, "ties": st["ties"] > 0}

    def mkP(variant):
        def P(cls, msg):
            kk = dict(key); kk["cls"] = cls; kk["variant"] = variant
            return {"prop": prop, "cls": cls, "op": "TT(dense)", "key": kk, "msg": "TT-SVD d=%d spectrum^2=%s eps^2=%d/%d caps=%s [%s]: %s" % (
                d, spec0, p, q, caps, variant, msg), "replay": {"engine": "vf.truncrun", "kind": "trunc", "mode": "svd", "state": st}}
        return P
    traces = []
    rm = rmax_arg(caps, d)
    kw = {"eps": eps}
    if rm is not None:
        kw["rmax"] = rm
    gen = torch.Generator().manual_seed(1000 + seed)
    variants = []
    shape = [n] * d
    variants.append(("plain", superdiag(sig, shape), "tt", shape, [], torch.float64, None))
    variants.append(("numpy", superdiag(sig, shape).numpy(), "tt", shape, [], torch.float64, None))
    # the bounds are relative to the norm of the input: a tensor of tiny (or huge) magnitude is an input like any other
    variants.append(("tiny", superdiag(sig, shape) * 1e-20, "tt", shape, [], torch.float64, None))
    variants.append(("huge", superdiag(sig, shape) * 1e20, "tt", shape, [], torch.float64, None))
    if d >= 3 and n > 1:
        s1 = list(shape); s1[1 + (seed % (d - 2))] = 1
        variants.append(("singleton", superdiag(sig, s1), "tt", s1, [], torch.float64, None))
    ph = superdiag(sig, shape).to(torch.complex128)
    for ax in range(d):
        u = torch.exp(1j * torch.rand(n, generator=gen, dtype=torch.float64) * 6.283).to(torch.complex128)
        ph = ph * u.reshape([n if a == ax else 1 for a in range(d)])
    variants.append(("complex", ph, "tt", shape, [], torch.complex128, None))
    variants.append(("float32", superdiag(sig, shape, torch.float32), "tt", shape, [], torch.float32, None))
    variants.append(("complex64", ph.to(torch.complex64), "tt", shape, [], torch.complex64, None))
    if d == 2:
        st3 = [max(10 * n, 10), n]
        variants.append(("tall-complex64", superdiag(sig, st3).to(torch.complex64) * (0.6 + 0.8j), "tt", st3, [], torch.complex64, None))
    rot = superdiag(sig, shape)
    for ax in range(d):
        rot = torch.movedim(torch.tensordot(rand_orth(n, gen, torch.float64), rot, dims=([1], [ax])), 0, ax)
    variants.append(("rotated", rot.contiguous(), "tt", shape, [], torch.float64, None))
    # operator shape: every mode n = m * c
    facs = [(m, n // m) for m in range(1, n + 1) if n % m == 0]
    mc = [facs[(seed + j) % len(facs)] for j in range(d)]
    M, N = [a for a, b in mc], [b for a, b in mc]
    T = superdiag(sig, shape)
    A = T.reshape([v for ab in mc for v in ab]).permute([2 * j for j in range(d)] + [2 * j + 1 for j in range(d)]).contiguous()
    variants.append(("operator", A, "ttm", N, M, torch.float64, [(int(a), int(b)) for a, b in mc]))
    if d == 2:
        st2 = [max(10 * n, 10), n]
        variants.append(("tall", superdiag(sig, st2), "tt", st2, [], torch.float64, None))
    # explicit shape argument (reshape of a flat array)
    variants.append(("flat+shape", superdiag(sig, shape).reshape(-1), "tt", shape, [], torch.float64, list(shape)))
    # a non-contiguous source (permuted view) with an explicit shape that merges the first two modes: the constructor has to
    # reshape across strides (reshape copies where view cannot)
    if d >= 2 and rm is None or isinstance(rm, int):
        if d >= 2:
            A0 = superdiag(sig, shape)
            perm = list(range(d))[::-1]
            src = A0.permute(perm).contiguous().permute(perm)          # the values of A0 in reversed-stride storage
            merged = [shape[0] * shape[1]] + list(shape[2:])
            variants.append(("strided+merge", src, "tt", merged, [], torch.float64, list(merged)))
    # numpy twins of the structured variants (the constructor dispatches on source type x shape form)
    for name, arr, kind, wN, wM, dt, shp in list(variants):
        if name in ("operator", "singleton", "flat+shape", "complex", "tall"):
            variants.append((name + "+numpy", arr.numpy(), kind, wN, wM, dt, shp))
    for name, arr, kind, wN, wM, dt, shp in variants:
        P = mkP(name)
        stats["calls"] = stats.get("calls", 0) + 1
        try:
            X, ev = record_trunc("to_tt", d, eps, (lambda: tt.TT(arr, shp, **kw)) if shp is not None else (lambda: tt.TT(arr, **kw)))
        except Exception as ex:  # noqa
            problems.append(P("exception", "raised %s: %s" % (type(ex).__name__, str(ex)[:200])))
            continue
        dense = torch.as_tensor(arr).reshape(wM + wN if kind == "ttm" else wN)
        if isinstance(X, tt.TT) and dt not in (torch.float32, torch.complex64):
            try:
                e2 = torch.linalg.norm(project.dense(X.cores).reshape(dense.shape) - dense).item() ** 2
                traces.append(make_trace("to_tt", len(wN), eps, torch.linalg.norm(dense).item() ** 2, e2, ev, name))
            except Exception:   # noqa  a malformed result is reported by check_result below
                pass
        problems += check_result(P, tt, X, kind, wN, wM, caps, [rho_in] * (d - 1), eps, capped, dense, dt, name)
        # drift note: exact ranks vs the ledger (only where no decision sits on an exact tie)
        if name == "plain" and st["ties"] == 0 and isinstance(X, tt.TT):
            if [int(r) for r in X.R[1:-1]] != [int(r) for r in st["ranks"]]:
                stats["rank-drift"] = stats.get("rank-drift", 0) + 1
    stats["nontrivial"] = 1 if (d >= 3 and rho_in >= 2 and p > 0) else 0
    sample = {"d": d, "spectrum_energies": spec0, "eps2": [p, q], "caps": caps, "model_ranks": st["ranks"], "model_discarded": st["disc"]}
    return {"problems": problems, "stats": stats, "sample": sample, "artifacts": traces}


def build_tt_with_spectrum(tt, sig, d, n, infl, gen, dt, kind="tt", scale=1.0):
    """TT whose every unfolding has singular values sig (superdiagonal), stored with ranks inflated by infl through
    non-orthogonal gauges P P^+ and cores rescaled by c, 1/c."""
    r = max(1, len(sig))
    cores = []
    for k in range(d):
        r1 = 1 if k == 0 else r
        r2 = 1 if k == d - 1 else r
        c = torch.zeros(r1, n, r2, dtype=torch.float64)
        for j in range(len(sig)):
            if j < n:
                c[0 if k == 0 else j, j, 0 if k == d - 1 else j] = sig[j] if k == 0 else 1.0
        cores.append(c)
    if d == 1:
        c = torch.zeros(1, n, 1, dtype=torch.float64)
        for j in range(min(n, len(sig))):
            c[0, j, 0] = sig[j]
        cores = [c]
    for k in range(d - 1):
        if infl > 0:
            Pm = torch.randn(r, r + infl, generator=gen, dtype=torch.float64)
            Pp = torch.linalg.pinv(Pm)          # P P^+ = I_r
            cores[k] = torch.einsum('anb,bc->anc', cores[k], Pm)
            cores[k + 1] = torch.einsum('ab,bnc->anc', Pp, cores[k + 1])
        if scale != 1.0:
            cores[k] = cores[k] * scale
            cores[k + 1] = cores[k + 1] / scale
    if kind == "ttm":
        cores = [c[:, :, None, :].expand(-1, -1, 1, -1).contiguous() for c in cores]
    cores = [c.to(dt) for c in cores]
    return tt.TT(cores)


def round_case(st, opts):
    import torchtt as tt
    from . import algrun
    prop = "C02"
    cfg, infl = st["cfg"], st["infl"]
    d, p, q = cfg["d"], cfg["p"], cfg["q"]
    caps_proc = [int(c) for c in cfg["caps"]]
    caps = list(reversed(caps_proc))          # rounding processes the bonds right to left
    eps = math.sqrt(p / q)
    spec0 = list(st["spec0"])
    sig = [math.sqrt(v) for v in spec0 if v > 0]
    rho_in = len(sig)
    n = max(len(spec0), 1)
    capped = st["capped"]
    seed = opts.get("seed", 0)
    problems, stats = [], {"behaviours": 1}
    key = {"op": "round", "d": d, "eps2": "%d/%d" % (p, q), "capped": capped, "ties": st["ties"] > 0, "infl": infl}

    def mkP(variant):
        def P(cls, msg, prop_=prop):
            kk = dict(key); kk["cls"] = cls; kk["variant"] = variant
            return {"prop": prop_, "cls": cls, "op": "round", "key": kk, "msg": "round d=%d spectrum^2=%s inflated by %d eps^2=%d/%d caps=%s [%s]: %s" % (
                d, spec0, infl, p, q, caps, variant, msg), "replay": {"engine": "vf.truncrun", "kind": "trunc", "mode": "round", "state": st}}
        return P
    rtraces = []
    gen = torch.Generator().manual_seed(2000 + seed)
    if all(c >= BIG for c in caps):
        rm = None
    elif len(set(caps)) == 1:
        rm = int(caps[0])
    else:
        rm = [1] + [int(c) if c < BIG else 10 ** 6 for c in caps] + [1]
    variants = [("plain", torch.float64, "tt", 1.0), ("scaled", torch.float64, "tt", 1e4), ("tiny", torch.float64, "tt", 1.0), ("complex", torch.complex128, "tt", 1.0),
                ("operator", torch.float64, "ttm", 1.0), ("float32", torch.float32, "tt", 1.0)]
    for name, dt, kind, scale in variants:
        P = mkP(name)
        stats["calls"] = stats.get("calls", 0) + 1
        X = build_tt_with_spectrum(tt, sig, d, n, infl, gen, dt, kind, scale)
        if name == "complex":
            X = X * complex(0.6, 0.8)
        if name == "tiny":
            X = tt.TT([X.cores[0] * 1e-20] + [c.clone() for c in X.cores[1:]])
        dense = project.dense(X.cores)
        snap = algrun.snapshot([X])
        Rin = [int(r) for r in X.R]
        try:
            Y, ev = record_trunc("round_tt", d, eps, (lambda: X.round(eps)) if rm is None else (lambda: X.round(eps, rm)))
        except Exception as ex:  # noqa
            problems.append(P("exception", "raised %s: %s" % (type(ex).__name__, str(ex)[:200])))
            continue
        if isinstance(Y, tt.TT) and dt != torch.float32:
            try:
                e2 = torch.linalg.norm(project.dense(Y.cores) - dense).item() ** 2
                rtraces.append(make_trace("round_tt", d, eps, torch.linalg.norm(dense).item() ** 2, e2, ev, name))
            except Exception:   # noqa
                pass
        for nn, why in algrun.changed([X], snap):
            problems.append(P("operand-changed", "round changed its operand: %s" % "; ".join(why)))
        wfx = project.wf_problems(X)
        if wfx:
            problems.append(P("operand-changed", "operand no longer self-consistent after round: %s" % wfx))
        if Y is X:
            problems.append(P("operand-changed", "round returned its operand instead of a new object"))
        dX = project.derived_desc(X.cores)
        eff_eps = eps
        problems += check_result(P, tt, Y, dX["k"], dX["N"], dX["M"], caps, [rho_in] * (d - 1), eff_eps, capped, dense, dt, name,
                                 exact_rank_check=(dt != torch.float32 or eps >= 1e-3))
        if isinstance(Y, tt.TT) and len(Y.R) == len(Rin):
            if any(int(a) > int(b) for a, b in zip(Y.R, Rin)):
                problems.append(P("rank-monotone", "a rank grew: %s -> %s" % (Rin, [int(r) for r in Y.R])))
    # product structure: two blocks with the model's spectrum joined by a bond of rank one (Kronecker product), both
    # blocks stored with inflated ranks - the bonds on either side of the rank-one bond are truncated like any other
    if 2 <= d and 2 * d <= 6:
        P = mkP("product")
        stats["calls"] = stats.get("calls", 0) + 1
        Xa = build_tt_with_spectrum(tt, sig, d, n, infl, gen, torch.float64, "tt", 1.0)
        Xb = build_tt_with_spectrum(tt, sig, d, n, max(infl, 1), gen, torch.float64, "tt", 1.0)
        X = tt.TT([c.clone() for c in Xa.cores] + [c.clone() for c in Xb.cores])
        dense = project.dense(X.cores)
        caps2 = caps + [BIG] + caps
        rm2 = None if all(c >= BIG for c in caps) else (int(caps[0]) if len(set(caps)) == 1 else [1] + [int(c) if c < BIG else 10 ** 6 for c in caps2] + [1])
        if isinstance(rm2, int):
            caps2 = [rm2] * (2 * d - 1)
        Rin = [int(r) for r in X.R]
        snap = algrun.snapshot([X])
        try:
            Y = X.round(eps) if rm2 is None else X.round(eps, rm2)
            for nn, why in algrun.changed([X], snap):
                problems.append(P("operand-changed", "round changed its operand: %s" % "; ".join(why)))
            # the per-bond allowance of the longer train is smaller than the model's: a cap that the model did not need may bind
            # here; "when rmax is binding only the rank bounds are promised", so a result rank sitting at its cap counts as capped
            capped2 = capped or (isinstance(Y, tt.TT) and len(Y.R) == 2 * d + 1 and any(int(Y.R[b + 1]) >= caps2[b] for b in range(2 * d - 1)))
            problems += check_result(P, tt, Y, "tt", [n] * (2 * d), [], caps2, [rho_in] * (d - 1) + [1] + [rho_in] * (d - 1), eps, capped2, dense,
                                     torch.float64, "product")
            if isinstance(Y, tt.TT) and len(Y.R) == len(Rin) and any(int(a) > int(b) for a, b in zip(Y.R, Rin)):
                problems.append(P("rank-monotone", "a rank grew: %s -> %s" % (Rin, [int(r) for r in Y.R])))
        except Exception as ex:  # noqa
            problems.append(P("exception", "raised %s: %s" % (type(ex).__name__, str(ex)[:200])))
    stats["nontrivial"] = 1 if (d >= 3 and rho_in >= 2 and p > 0) else 0
    sample = {"d": d, "spectrum_energies": spec0, "inflate": infl, "eps2": [p, q], "caps": caps, "model_ranks_processing_order": st["ranks"]}
    return {"problems": problems, "stats": stats, "sample": sample, "artifacts": rtraces}


def rerun(payload):
    if payload["kind"] == "chop_cpp":
        r = handler_chop_cpp(payload["state"], {})
    elif payload["kind"] == "chop":
        r = handler_chop(payload["state"], {"prop": payload.get("prop", "C01")})
    else:
        r = handler_trunc(payload["state"], {"mode": payload["mode"]})
    return r["problems"] if r else []
