"""pytest plugin (-p vf.pytest_vfplugin): records every public torchtt call made by the repository's own tests.
One trace per test; written as JSON to $VF_TRACE_OUT at the end of the session."""
import json, os


def pytest_sessionstart(session):
    from .recorder import RECORDER
    RECORDER.install()
    session.config._vf_traces = []


def pytest_runtest_logreport(report):
    pass


def pytest_runtest_teardown(item, nextitem):
    from .recorder import RECORDER
    ev = RECORDER.cut()
    item.session.config._vf_traces.append({"name": item.nodeid, "ev": ev})


def pytest_sessionfinish(session, exitstatus):
    path = os.environ.get("VF_TRACE_OUT")
    if path:
        with open(path, "w") as f:
            json.dump({"traces": session.config._vf_traces, "exitstatus": int(exitstatus)}, f)
