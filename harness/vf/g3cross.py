"""dmrg_cross / function_interpolate (C14) and the manifold routines (C16) on spec/Configs.tla configurations.
Every call of the user function is recorded (rows, ncols, integer dtype, range / membership verdict); the event
lists are returned as artifacts and validated by TLC against spec/TraceCross.tla by the check."""
import math
import numpy as np
import torch

from . import project, algrun
from .g3run import opt_kwargs, quiet, rand_tt, raw_tt, rel_err, mk_problem, check_tt, check_operands, U64

TOL_C14 = 20.0


def run_cross(st, opts):
    import torchtt as tt
    cfg = st["cfg"]
    op = cfg["op"]
    N = [int(v) for v in cfg["N"]]
    d = len(N)
    eps = 10.0 ** (-cfg["e"])
    gen = torch.Generator().manual_seed(3000 + 1000 * cfg["seed"] + 7 * d + cfg["r"] + opts.get("seed", 0))
    torch.manual_seed(cfg["seed"] + opts.get("seed", 0))
    problems, stats = [], {"behaviours": 1, "calls": 0}
    dt = torch.float64
    events = []
    kick = 2
    g = None
    # "sweep2": a sweep budget of two (documented optional nswp) with an over-parameterised random start: two full sweeps of
    # the two-site scheme with exact supercore evaluation recover a target of rank <= 4 (measured on every configuration)
    kw = {"nswp": 2} if cfg["guess"] == "sweep2" else ({"nswp": 1} if cfg["guess"] == "sweep1" else {})
    kw.update(opt_kwargs(cfg["op"], cfg.get("opt")))
    if cfg["guess"] in ("sweep1", "sweep2"):
        g = raw_tt(tt, N, 4, gen, dt)
    if cfg["guess"] in ("fresh", "reused"):
        g = rand_tt(tt, N, 2, gen, dt)
    elif cfg["guess"] == "big":
        g = raw_tt(tt, N, 4, gen, dt)
    if op == "dmrg_cross":
        target = rand_tt(tt, N, cfg["r"], gen, dt)
        if cfg["data"] == "rand" and cfg["seed"] % 2 == 0:
            # smooth function of the index sum (fast decaying ranks)
            grids = torch.meshgrid(*[torch.arange(n, dtype=dt) for n in N], indexing="ij")
            F = 1.0 / (2.0 + sum(grids))
        else:
            F = project.dense(target.cores)
        if cfg.get("scale", "unit") == "small":
            F = F * 1e-5          # a target of tiny magnitude: the relative accuracy promised is scale invariant

        def f(I):
            ok_int = (not torch.is_floating_point(I)) and (not torch.is_complex(I))
            inr = I.dim() == 2 and I.shape[1] == d and all(int(I[:, j].min()) >= 0 and int(I[:, j].max()) < N[j] for j in range(I.shape[1])) if I.numel() else True
            events.append({"rows": int(I.shape[0]), "ncols": int(I.shape[1]) if I.dim() == 2 else -1, "isint": bool(ok_int), "inrange": bool(inr)})
            J = I.clamp(min=0)
            for j in range(d):
                J[:, j] = J[:, j].clamp(max=N[j] - 1)
            return F[tuple(J[:, j] for j in range(d))]
        objs, names = ([g], ["x_start"]) if g is not None else ([], [])

        def call():
            return tt.interpolate.dmrg_cross(f, N, eps=eps, x_start=g, kick=kick, **kw)
        ref = F
    else:
        if op == "interp_uni":
            x = rand_tt(tt, N, cfg["r"], gen, dt, scale=0.5)
            xd = project.dense(x.cores)
            flat = xd.reshape(-1)
            scale = max(1.0, flat.abs().max().item())

            def f(v):
                # every value handed over has to be an entry of the argument tensor
                vv = v.reshape(-1)
                srt, _ = torch.sort(flat)
                pos = torch.searchsorted(srt, vv).clamp(1, srt.numel() - 1)
                dist = torch.minimum((vv - srt[pos - 1]).abs(), (vv - srt[pos]).abs())
                events.append({"rows": int(vv.numel()), "ncols": d, "isint": True, "inrange": bool((dist <= 1e-9 * scale).all())})
                return SC / (3.0 + v * v)
            SC = 1e-5 if cfg.get("scale", "unit") == "small" else 1.0
            ref = SC / (3.0 + xd * xd)
            args, objs, names = x, [x], ["x"]
        else:
            vecs = [torch.linspace(0.0, 1.0 + j, N[j], dtype=dt) for j in range(d)]
            xs = tt.meshgrid(vecs)
            if cfg["r"] >= 2:       # argument tensors of rank 2: affine combinations of the grid tensors
                xs = [(xs[j] + 0.5 * xs[(j + 1) % d]) for j in range(d)]
            dense_args = torch.stack([project.dense(a.cores).reshape(-1) for a in xs], 1)      # numel x d
            scale = max(1.0, dense_args.abs().max().item())

            def f(E):
                ok = E.dim() == 2 and E.shape[1] == d
                inr = False
                if ok:
                    # each row must occur among the argument tensors' entries at one common multi-index
                    inr = True
                    step = max(1, 2_000_000 // max(1, dense_args.shape[0] * d))
                    for a in range(0, E.shape[0], step):      # exact max-norm distance to the nearest admissible row (chunked)
                        dist = (E[a:a + step, None, :] - dense_args[None, :, :]).abs().amax(2).min(1).values
                        inr = inr and bool((dist <= 1e-9 * scale).all())
                events.append({"rows": int(E.shape[0]), "ncols": int(E.shape[1]) if E.dim() == 2 else -1, "isint": True, "inrange": inr})
                return SC / (2.0 + E.sum(1))
            SC = 1e-5 if cfg.get("scale", "unit") == "small" else 1.0
            ref = (SC / (2.0 + dense_args.sum(1))).reshape(N)
            args, objs, names = xs, list(xs), ["x%d" % j for j in range(d)]
        if g is not None:
            objs, names = objs + [g], names + ["start_tens"]

        def call():
            return tt.interpolate.function_interpolate(f, args, eps=eps, start_tens=g, kick=kick, **kw)
    traces = []
    ncalls = 2 if cfg["guess"] == "reused" else 1
    for it in range(ncalls):
        events.clear()
        snap = algrun.snapshot(objs)
        stats["calls"] += 1
        try:
            with quiet():
                Y = call()
        except Exception as ex:  # noqa
            problems.append(mk_problem("C14", "exception", cfg, "call %d raised %s: %s" % (it + 1, type(ex).__name__, str(ex)[:200]), st, {"exc": type(ex).__name__}))
            check_operands(cfg, st, tt, objs, snap, names, problems)
            break
        check_operands(cfg, st, tt, objs, snap, names, problems)
        rank0 = [int(r) for r in g.R] if g is not None else [1] + [2] * (d - 1) + [1]
        traces.append({"routine": "dmrg_cross" if op == "dmrg_cross" else "interp", "N": N, "kick": kick, "rank0": rank0,
                       "ev": [dict(e) for e in events], "cfg": cfg})
        bad = [e for e in events if not (e["isint"] and e["inrange"] and e["ncols"] == d)]
        if bad:
            problems.append(mk_problem("C14", "bad-argument", cfg, "the user function received an ill-formed argument: %s" % bad[0], st))
        if not check_tt("C14", cfg, st, tt, Y, "tt", N, [], problems):
            continue
        err = rel_err(project.dense(Y.cores), ref)
        stats["err_over_eps_max"] = max(stats.get("err_over_eps_max", 0), err / eps)
        if err > TOL_C14 * eps + 1e4 * U64:
            problems.append(mk_problem("C14", "accuracy", cfg, "call %d: relative error %.3g > %g*eps (eps=%g, ranks %s)" % (it + 1, err, TOL_C14, eps, Y.R), st))
    stats["nontrivial"] = 1 if d >= 3 else 0
    stats["eval_events"] = sum(len(t["ev"]) for t in traces)
    return {"problems": problems, "stats": stats, "sample": {"cfg": cfg, "n_eval_events": stats["eval_events"]}, "artifacts": traces}


def dispatch(st, opts):
    op = st["cfg"]["op"]
    if op in ("dmrg_cross", "interp_uni", "interp_multi"):
        return run_cross(st, opts)
    from . import g3manifold
    return g3manifold.dispatch(st, opts)
