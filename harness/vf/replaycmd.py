"""bin/check <id> --replay <file>: re-execute one recorded deviation against the current working tree."""
import json, sys


def replay(prop, path):
    from . import engine
    engine._init_worker()
    with open(path) as f:
        rec = json.load(f)
    model = rec.get("model") or ""
    print("replaying %s (%s): %s" % (path, rec.get("class"), rec.get("message")))
    from . import replayers
    probs = replayers.rerun(rec)
    mine = [p for p in probs if p.get("prop") in (prop, None)]
    for p in mine:
        print("  still deviates: [%s] %s" % (p.get("cls"), p.get("msg")))
    if mine:
        print("VIOLATION property=%s replay=%s" % (prop, path))
        return 1
    print("no deviation on the current tree")
    return 0
