"""The abstraction function: a real torchtt.TT -> the model's descriptor and dense value,
using only obj.cores (own contraction, never obj.full()) plus, separately, what the object reports."""
import numpy as np
import torch


def derived_desc(cores):
    """Descriptor re-derived from core shapes alone; raises ValueError if the cores are not even a chain."""
    nd = {c.dim() for c in cores}
    if len(cores) == 0 or nd not in ({3}, {4}):
        raise ValueError("cores are not all 3-d or all 4-d: %s" % [tuple(c.shape) for c in cores])
    ttm = nd == {4}
    R = [int(cores[0].shape[0])] + [int(c.shape[-1]) for c in cores]
    for k in range(len(cores) - 1):
        if cores[k].shape[-1] != cores[k + 1].shape[0]:
            raise ValueError("rank chain broken between cores %d and %d: %s" % (k, k + 1, [tuple(c.shape) for c in cores]))
    if ttm:
        return {"k": "ttm", "M": [int(c.shape[1]) for c in cores], "N": [int(c.shape[2]) for c in cores], "R": R}
    return {"k": "tt", "M": [], "N": [int(c.shape[1]) for c in cores], "R": R}


def wf_problems(obj):
    """List of well-formedness problems (C05): cores vs reported N, M, R, shape, is_ttm."""
    probs = []
    try:
        d = derived_desc(obj.cores)
    except Exception as e:  # noqa
        return ["cores: %s" % e]
    if d["R"][0] != 1 or d["R"][-1] != 1:
        probs.append("boundary ranks %s" % d["R"])
    try:
        if bool(obj.is_ttm) != (d["k"] == "ttm"):
            probs.append("is_ttm=%s but cores are %s" % (obj.is_ttm, d["k"]))
        if [int(n) for n in obj.N] != d["N"]:
            probs.append("N=%s but cores give %s" % (obj.N, d["N"]))
        if [int(r) for r in obj.R] != d["R"]:
            probs.append("R=%s but cores give %s" % (obj.R, d["R"]))
        if d["k"] == "ttm" and [int(m) for m in obj.M] != d["M"]:
            probs.append("M=%s but cores give %s" % (obj.M, d["M"]))
        shp = [(m, n) for m, n in zip(d["M"], d["N"])] if d["k"] == "ttm" else list(d["N"])
        rep = [tuple(int(v) for v in s) if isinstance(s, (tuple, list)) else int(s) for s in obj.shape]
        if rep != shp:
            probs.append("shape=%s but cores give %s" % (obj.shape, shp))
        for nm in ("N", "R"):
            for v in getattr(obj, nm):
                if not isinstance(v, (int, np.integer)) or isinstance(v, bool) or v <= 0:
                    probs.append("%s holds a non positive-integer %r" % (nm, v))
        # (mixed core dtypes are not a well-formedness matter of C05: set_core accepts any core the user supplies)
    except Exception as e:  # noqa
        probs.append("metadata access failed: %s: %s" % (type(e).__name__, e))
    return probs


def dense(cores):
    """Own contraction of the cores to the dense array (operator: rows first, then columns)."""
    cs = [c.detach().resolve_conj() for c in cores]
    if cs[0].dim() == 3:
        t = cs[0][0]                                   # n1 x r
        for c in cs[1:]:
            t = torch.tensordot(t, c, dims=([t.dim() - 1], [0]))
        return t[..., 0]
    t = cs[0][0]                                       # m1 x n1 x r
    for c in cs[1:]:
        t = torch.tensordot(t, c, dims=([t.dim() - 1], [0]))
    t = t[..., 0]
    d = len(cs)
    perm = [2 * i for i in range(d)] + [2 * i + 1 for i in range(d)]
    return t.permute(perm).contiguous()


def storage_tokens(cores):
    return [c.untyped_storage().data_ptr() for c in cores]


def versions(cores):
    return [c._version for c in cores]
