import sys, os, argparse, json, traceback


def main():
    ap = argparse.ArgumentParser()
    ap.add_argument("prop")
    ap.add_argument("--tier", default=os.environ.get("VERIF_TIER", "quick"), choices=["quick", "thorough"])
    ap.add_argument("--replay", default=None)
    a = ap.parse_args()
    from . import checks
    if a.replay:
        from . import replaycmd
        sys.exit(replaycmd.replay(a.prop, a.replay))
    if a.prop not in checks.REGISTRY:
        print("unknown property %s" % a.prop)
        sys.exit(2)
    try:
        run = checks.REGISTRY[a.prop](a.tier)
        rc = run.finish()
    except Exception as e:   # machinery failure
        traceback.print_exc()
        print("MACHINERY-FAILURE: %s" % e)
        sys.exit(2)
    sys.exit(rc)


if __name__ == "__main__":
    main()
