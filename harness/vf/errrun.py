"""Replay of spec/Err.tla states (property C18): each state is one call with incompatible arguments.
Verdict: the call must raise.  Returning anything is a violation; for cases the specification marks as
documented (doc = TRUE) the exception must be one of the library's classes or NotImplementedError."""
import os, tempfile
import numpy as np
import torch

from . import algrun, fill, project

LIB = ("ShapeMismatch", "RankMismatch", "IncompatibleTypes", "InvalidArguments", "NotImplementedError")


def bad_value(tp):
    return {"none": None, "str": "a", "list": [1, 2]}[tp]


def call(tt, case):
    """returns a thunk performing the incompatible call"""
    op, cls = case["op"], case["cls"]
    X = algrun.build(case["x"])
    dt = X.cores[0].dtype
    Y = algrun.build(case["y"]) if isinstance(case.get("y"), dict) and "I" in case["y"] else None
    S = case["x"]
    d = len(S["I"])
    if cls == "order" and Y is not None and op in ("matmul", "fast_matvec", "amen_mv"):
        return {"matmul": lambda: X @ Y, "fast_matvec": lambda: X.fast_matvec(Y, nswp=2), "amen_mv": lambda: tt.amen_mv(X, Y, nswp=2)}[op]
    if cls in ("shape", "kind") and op in ("add", "sub", "mul", "kron", "truediv", "matmul") and Y is not None:
        return {"add": lambda: X + Y, "sub": lambda: X - Y, "mul": lambda: X * Y, "kron": lambda: tt.kron(X, Y),
                "truediv": lambda: X / Y, "matmul": lambda: X @ Y}[op]
    if op == "projection" and Y is not None:
        return lambda: tt.manifold.riemannian_projection(X, Y)
    if cls == "shape" and op == "fast_matvec" and Y is not None:
        return lambda: X.fast_matvec(Y, nswp=2)
    if op == "matdense":
        D = torch.zeros(list(case["bad"]), dtype=dt)
        return lambda: X @ D
    if cls == "type":
        v = bad_value(case["tp"])
        table = {
            "add": lambda: X + v, "sub": lambda: X - v, "mul": lambda: X * v, "truediv": lambda: X / v, "matmul": lambda: X @ v,
            "kron": lambda: tt.kron(X, v), "pow": lambda: X ** v, "dot": lambda: tt.dot(X, v),
            "bilinear": lambda: tt.bilinear_form(X, v, X), "fast_matvec": lambda: X.fast_matvec(v),
            "cat_elem": lambda: tt.cat((X, v), 0), "diag": lambda: tt.diag(v), "permute_input": lambda: tt.permute(v, [0]),
            "save": lambda: tt.save(v, os.path.join(tempfile.gettempdir(), "vf_never_written.TT")),
            "mprod_args": lambda: X.mprod(v, 0), "sum_index": lambda: X.sum(v), "index_item": lambda: X[(v,) * d] if v is not None else X["a"],
            "qtt_shape": lambda: X.qtt_to_tens(v),
        }
        return table[op]
    if cls == "kind":
        return {"t": lambda: X.t(), "mprod": lambda: X.mprod(torch.ones(2, S["I"][0], dtype=dt), 0), "cat": lambda: tt.cat((X, X), 0),
                "dot": lambda: tt.dot(X, X), "M": lambda: X.M, "bilinear": lambda: tt.bilinear_form(X, X, X),
                "fast_matvec": lambda: X.fast_matvec(X), "amen_solve": lambda: tt.solvers.amen_solve(X, X),
                "amen_mv": lambda: tt.amen_mv(X, X)}[op]
    if op == "to_qtt":
        return lambda: X.to_qtt()
    if op == "to_qtt_ms3":
        return lambda: X.to_qtt(mode_size=3)
    if op == "sum":
        ax = list(case["axes"])
        return lambda: X.sum(ax if len(ax) > 1 else ax[0])
    if op == "set_core":
        p = case["p"]
        c = X.cores[0]
        if cls == "axis":
            return lambda: X.set_core(p, X.cores[0].clone())
        if cls == "axis_neg_last":
            return lambda: X.set_core(p, X.cores[-1].clone())
        if cls == "axis_neg_unit":
            cl = X.cores[-1]
            return lambda: X.set_core(p, torch.ones([1] + list(cl.shape[1:-1]) + [1], dtype=dt))
        if cls == "rank":
            shp = list(c.shape); shp[-1] += 1; shp[0] += 1
            return lambda: X.set_core(0, torch.zeros(shp, dtype=dt))
        if cls == "ndim":
            return lambda: X.set_core(0, (c[:, :, 0, :] if X.is_ttm else c[:, :, None, :]).clone())
    if op == "mprod":
        return lambda: X.mprod(torch.ones(2, S["I"][0] + 1, dtype=dt), 0)
    if op == "pad":
        return lambda: tt.pad(X, tuple((1, 1) for _ in range(d + 1)))
    if op == "permute":
        dims = list(case["dims"])
        return lambda: tt.permute(X, dims)
    if op == "reshape":
        if X.is_ttm:
            shp = [(S["I"][0] * 2, S["J"][0])] + [(m, n) for m, n in zip(S["I"][1:], S["J"][1:])]
        else:
            shp = list(case["shape"])
        return lambda: tt.reshape(X, shp)
    if op == "qtt_to_tens":
        return lambda: X.qtt_to_tens(list(case["shape"]))
    if op == "index":
        if cls == "too_many": return lambda: X[(0,) * (d + 1)]
        if cls == "range": return lambda: X[(case["n"],) + (0,) * (d - 1)]
        if cls == "two_ellipsis": return lambda: X[(Ellipsis, 0, Ellipsis)]
        if cls == "ellipsis_ttm": return lambda: X[(Ellipsis,) + (0,) * d]
        if cls == "pair_kinds": return lambda: X[(0,) * d + (slice(None),) * d]
        if cls == "too_few": return lambda: X[(0, 0)] if d > 1 else X[(0,)]
        if cls == "short": return lambda: X[(0,) * (d - 1)]
        if cls == "short_slices": return lambda: X[(slice(None),) * (d - 1)]
        if cls == "bare_int": return lambda: X[0]
        if cls == "bare_slice": return lambda: X[0:1]
    if op == "apply_mask":
        rows = torch.tensor([[n for n in S["I"]]], dtype=torch.int64)      # every index = size: out of range
        return lambda: X.apply_mask(rows)
    if op == "dot":
        return lambda: tt.dot(X, Y)
    if op == "dot_axes":
        return lambda: tt.dot(X, Y, list(case["axes"]))
    if op == "bilinear":
        return lambda: tt.bilinear_form(X, Y, X)
    if op == "cat":
        return lambda: tt.cat((X, Y), case["ax"])
    if op == "ctor":
        cs = [c.clone() for c in X.cores]
        if cls == "rank_chain":
            cs[0] = torch.cat((cs[0], cs[0]), dim=-1)
        elif cls == "boundary_left":
            cs[0] = torch.cat((cs[0], cs[0]), dim=0)
        elif cls == "boundary_right":
            cs[-1] = torch.cat((cs[-1], cs[-1]), dim=-1)
        elif cls == "ndim2":
            cs[0] = cs[0].reshape(cs[0].shape[0], -1)
        elif cls == "mixed_ndim":
            cs[0] = cs[0][:, :, 0, :] if X.is_ttm else cs[0][:, :, None, :]
        elif cls == "string":
            return lambda: tt.TT("not a tensor")
        elif cls == "empty_list":
            return lambda: tt.TT([])
        return lambda: tt.TT(cs)
    if op == "random":
        N = [int(n) for n in S["I"]]
        if cls == "rank_len": return lambda: tt.random(N, [1] + [2] * len(N) + [1])
        if cls == "rank_boundary": return lambda: tt.random(N, [2] + [2] * (len(N) - 1) + [1])
    if op == "amen_solve":
        return lambda: tt.solvers.amen_solve(X, Y, nswp=2, eps=1e-3, verbose=False)
    if op == "amen_mv":
        return lambda: tt.amen_mv(X, Y, nswp=2)
    if op == "amen_mm":
        return lambda: tt.amen_mm(X, Y, nswp=2)
    if op == "truediv":
        return lambda: X / Y
    if op == "hadamard":
        return lambda: tt.dmrg_hadamard(X, Y, nswp=2)
    raise ValueError("no binding for error case %s/%s" % (op, cls))


def handler(st, opts):
    case, res = st["case"], st["res"]
    if case["op"] == "init":
        return None
    import torchtt as tt
    stats = {"calls": 1, "behaviours": 1, "nontrivial": 1, "op:%s/%s" % (case["op"], case["cls"]): 1}
    problems = []
    key = {"op": case["op"], "cls": case["cls"], "kind": case["x"]["k"]}
    if "tp" in case:
        key["tp"] = case["tp"]
    torch.manual_seed(0)
    thunk = call(tt, case)
    # operands reachable from the thunk (built inside call()): a failing call must leave them as they were
    held = [v for v in (c.cell_contents for c in (thunk.__closure__ or ())) if isinstance(v, tt.TT) and len(v.cores) > 0]
    snap = algrun.snapshot(held)
    try:
        out = thunk()
    except Exception as e:   # noqa
        en = type(e).__name__
        stats["exc:" + en] = 1
        for n, why in algrun.changed(held, snap):
            k3 = dict(key); k3["verdict"] = "operand-changed"
            problems.append({"prop": "C06", "cls": "operand-changed", "op": case["op"], "key": k3,
                             "msg": "%s/%s raised %s but changed an operand first: %s" % (case["op"], case["cls"], en, "; ".join(why)),
                             "replay": {"engine": "vf.errrun", "state": st}})
        for o in held:
            wf = project.wf_problems(o)
            if wf:
                k3 = dict(key); k3["verdict"] = "ill-formed"
                problems.append({"prop": "C05", "cls": "ill-formed", "op": case["op"], "key": k3,
                                 "msg": "%s/%s raised %s and left an operand ill-formed: %s" % (case["op"], case["cls"], en, wf),
                                 "replay": {"engine": "vf.errrun", "state": st}})
        if res["doc"] and en not in LIB:
            k2 = dict(key); k2["verdict"] = "wrong-class"; k2["exc"] = en
            problems.append({"prop": "C18", "cls": "wrong-class", "op": case["op"], "key": k2,
                             "msg": "%s/%s: documented incompatibility raised %s (%s) instead of a library exception" % (case["op"], case["cls"], en, str(e)[:120]),
                             "replay": {"engine": "vf.errrun", "state": st}})
        return {"problems": problems, "stats": stats, "sample": {"case": case, "raised": en}}
    k2 = dict(key); k2["verdict"] = "returned"
    what = "a TT with N=%s" % out.N if isinstance(out, tt.TT) else ("tensor %s" % list(out.shape) if torch.is_tensor(out) else repr(out)[:60])
    problems.append({"prop": "C18", "cls": "returned", "op": case["op"], "key": k2,
                     "msg": "%s/%s with incompatible arguments returned %s instead of raising (x=%s y=%s)" % (
                         case["op"], case["cls"], what, case["x"]["I"], case.get("y", {}).get("I") if isinstance(case.get("y"), dict) else None),
                     "replay": {"engine": "vf.errrun", "state": st}})
    return {"problems": problems, "stats": stats, "sample": None}


def rerun(payload):
    r = handler(payload["state"], {})
    return r["problems"] if r else []
