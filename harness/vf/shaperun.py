"""Replay of spec/Reshape.tla, spec/Permute.tla and spec/Qtt.tla on torchtt (property C10).
For every walked (source, target) pair / permutation / QTT shape the real routine is run on random data of
several rank profiles and dtypes at several eps; verdict: exactly the requested mode sizes, value within
C*eps*||x|| + roundoff of the dense reshape / permutation, and no change of sign / phase / scale."""
import math, itertools
import numpy as np
import torch

from . import project, algrun

C_EPS = 3.0            # "a small multiple of the supplied eps"
U = {torch.float64: 2.0 ** -53, torch.complex128: 2.0 ** -53}
EPSS = [1e-14, 1e-8, 1e-3, 1e-1]


def rand_tt(tt, modes, rmax, gen, dt, decay=False, scale=1.0):
    """random TT (tensor if all column sizes are 1, else operator) with ranks min(rmax, what the sizes allow)"""
    d = len(modes)
    is_t = all(n == 1 for _, n in modes)
    sizes = [m * n for m, n in modes]
    R = [1] + [max(1, min(rmax, int(np.prod(sizes[:k + 1])), int(np.prod(sizes[k + 1:])))) for k in range(d - 1)] + [1]
    cores = []
    for k in range(d):
        sh = [R[k], modes[k][0], R[k + 1]] if is_t else [R[k], modes[k][0], modes[k][1], R[k + 1]]
        c = torch.randn(sh, generator=gen, dtype=torch.float64)
        if decay:
            c = c * (0.2 ** torch.arange(R[k + 1], dtype=torch.float64)).reshape([1] * (len(sh) - 1) + [-1])
        if dt.is_complex:
            c = c.to(dt) * torch.exp(1j * 6.283 * torch.rand(sh, generator=gen, dtype=torch.float64)).to(dt)
        cores.append(c.to(dt))
    if scale != 1.0:
        cores[-1] = cores[-1] * scale          # the promise is relative to the norm: a tiny (or huge) tensor is an input like any other
    return tt.TT(cores)


def compare(P, tt, Y, want_kind, want_N, want_M, ref, eps, dt, label, operand=None, snap=None):
    problems = []
    if operand is not None:
        for n, why in algrun.changed([operand], snap):
            problems.append(dict(P("operand-changed", "%s changed its operand: %s" % (label, "; ".join(why))), prop="C06"))
    if not isinstance(Y, tt.TT):
        return problems + [P("kind", "%s returned %s" % (label, type(Y).__name__))]
    wf = project.wf_problems(Y)
    if wf:
        return problems + [dict(P("ill-formed", "%s: %s" % (label, wf)), prop="C05")]
    d = project.derived_desc(Y.cores)
    if d["k"] != want_kind or d["N"] != want_N or d["M"] != want_M:
        return problems + [P("shape", "%s: result %s N=%s M=%s, requested %s N=%s M=%s" % (label, d["k"], d["N"], d["M"], want_kind, want_N, want_M))]
    got = project.dense(Y.cores)
    nrm = torch.linalg.norm(ref).item()
    err = torch.linalg.norm(got - ref).item()
    slack = 500 * U[dt] * math.sqrt(max(1, ref.numel())) * max(nrm, 1e-300)
    if err > C_EPS * eps * nrm + slack:
        # is it a sign / phase / scale error?  <got, ref>/||ref||^2 should be 1
        ph = (torch.sum(got * torch.conj(ref)) / max(nrm ** 2, 1e-300)).item() if nrm > 0 else 1.0
        cls = "phase" if abs(abs(ph) - 1) < 1e-6 and abs(ph - 1) > 1e-6 else "value"
        problems.append(P(cls, "%s: ||got - ref|| / ||ref|| = %.3g > %g*eps (eps=%g); <got,ref>/||ref||^2 = %s" % (
            label, err / max(nrm, 1e-300), C_EPS, eps, ph)))
    return problems


def handler_reshape(st, opts):
    if st["pc"] != "done":
        return None
    import torchtt as tt
    src = [tuple(m) for m in st["src"]]
    tgt = [tuple(m) for m in st["tgt"]]
    is_t = all(n == 1 for _, n in src)
    seed = opts.get("seed", 0)
    gen = torch.Generator().manual_seed(31 * seed + hash((tuple(src), tuple(tgt))) % 100000)
    problems, stats = [], {"behaviours": 1}
    key = {"op": "reshape", "kind": "tt" if is_t else "ttm", "trail1_src": src[-1] == (1, 1) and len(src) > 1, "trail1_tgt": tgt[-1] == (1, 1) and len(tgt) > 1}

    def P(cls, msg):
        kk = dict(key); kk["cls"] = cls
        return {"prop": "C10", "cls": cls, "op": "reshape", "key": kk, "msg": "reshape %s -> %s: %s" % (
            [m for m, _ in src] if is_t else src, [m for m, _ in tgt] if is_t else tgt, msg),
            "replay": {"engine": "vf.shaperun", "kind": "reshape", "state": st}}
    shape_arg = [int(m) for m, _ in tgt] if is_t else [(int(m), int(n)) for m, n in tgt]
    want_N = [int(m) for m, _ in tgt] if is_t else [int(n) for _, n in tgt]
    want_M = [] if is_t else [int(m) for m, _ in tgt]
    for rmax, dt, decay, scale in ((1, torch.float64, False, 1.0), (2, torch.complex128, False, 1.0), (3, torch.float64, True, 1.0), (3, torch.float64, True, 1e-6)):
        x = rand_tt(tt, src, rmax, gen, dt, decay, scale)
        dense = project.dense(x.cores)
        ref = dense.reshape(want_M + want_N)
        for eps in ([None] + EPSS if rmax == 2 else [None, 1e-3]):
            stats["calls"] = stats.get("calls", 0) + 1
            snap = algrun.snapshot([x])
            try:
                y = tt.reshape(x, shape_arg) if eps is None else tt.reshape(x, shape_arg, eps)
            except Exception as ex:  # noqa
                problems.append(P("exception", "raised %s: %s (ranks %s, eps %s)" % (type(ex).__name__, str(ex)[:160], x.R, eps)))
                continue
            problems += compare(P, tt, y, "tt" if is_t else "ttm", want_N, want_M, ref, 1e-16 if eps is None else eps, dt,
                                "ranks %s %s eps=%s scale=%g" % (x.R, str(dt).replace("torch.", ""), eps, scale), x, snap)
    stats["nontrivial"] = 1 if len(src) >= 2 or len(tgt) >= 2 else 0
    return {"problems": problems, "stats": stats, "sample": {"src": src, "tgt": tgt, "svd_splits": st["nsplit"]}}


def handler_permute(st, opts):
    if st["pc"] != "done":
        return None
    import torchtt as tt
    dims = [int(v) - 1 for v in st["dims"]]
    d = len(dims)
    seed = opts.get("seed", 0)
    gen = torch.Generator().manual_seed(77 + seed + sum((k + 1) * v for k, v in enumerate(dims)))
    problems, stats = [], {"behaviours": 1, "nontrivial": 1 if st["swaps"] >= 2 else 0}
    sizes = [2, 3, 4, 2, 3, 2][:d]
    key = {"op": "permute", "d": d, "swaps": st["swaps"]}

    def P(cls, msg):
        kk = dict(key); kk["cls"] = cls
        return {"prop": "C10", "cls": cls, "op": "permute", "key": kk, "msg": "permute dims=%s: %s" % (dims, msg),
                "replay": {"engine": "vf.shaperun", "kind": "permute", "state": st}}
    for kind in ("tt", "ttm"):
        modes = [(n, 1) for n in sizes] if kind == "tt" else [(n, 3 if n == 2 else 2) for n in sizes]
        for rmax, dt, decay, scale in ((2, torch.float64, False, 1.0), (3, torch.complex128, True, 1.0), (3, torch.float64, True, 1e-6)):
            x = rand_tt(tt, modes, rmax, gen, dt, decay, scale)
            dense = project.dense(x.cores)
            if kind == "tt":
                ref = dense.permute(dims)
                wN, wM = [sizes[k] for k in dims], []
            else:
                ref = dense.permute(dims + [d + k for k in dims])
                wM, wN = [modes[k][0] for k in dims], [modes[k][1] for k in dims]
            for eps in (None, 1e-8, 1e-3, 1e-1):
                stats["calls"] = stats.get("calls", 0) + 1
                snap = algrun.snapshot([x])
                try:
                    y = tt.permute(x, list(dims)) if eps is None else tt.permute(x, list(dims), eps)
                except Exception as ex:  # noqa
                    problems.append(P("exception", "%s raised %s: %s" % (kind, type(ex).__name__, str(ex)[:160])))
                    continue
                problems += compare(P, tt, y, kind, wN, wM, ref.contiguous(), 1e-12 if eps is None else eps, dt,
                                    "%s ranks %s eps=%s scale=%g" % (kind, x.R, eps, scale), x, snap)
    return {"problems": problems, "stats": stats, "sample": {"dims": dims, "swaps": st["swaps"]}}


def handler_qtt(st, opts):
    if st["back"] == [] or st["q"] == []:
        return None
    import torchtt as tt
    N = [int(n) for n in st["N"]]
    q = [int(v) for v in st["q"]]
    b = int(st.get("ms", 2))
    mkw = {} if b == 2 else {"mode_size": b}
    seed = opts.get("seed", 0)
    gen = torch.Generator().manual_seed(5 + seed + sum(N))
    problems, stats = [], {"behaviours": 1, "nontrivial": 1 if len(q) > len(N) else 0}
    key = {"op": "to_qtt", "d": len(N), "mode_size": b}

    def P(cls, msg, op="to_qtt"):
        kk = dict(key); kk["cls"] = cls; kk["op"] = op
        return {"prop": "C10", "cls": cls, "op": op, "key": kk, "msg": "%s N=%s: %s" % (op, N, msg),
                "replay": {"engine": "vf.shaperun", "kind": "qtt", "state": st}}
    for rmax, dt, scale in ((2, torch.float64, 1.0), (3, torch.complex128, 1.0), (3, torch.float64, 1e-6)):
        x = rand_tt(tt, [(n, 1) for n in N], rmax, gen, dt, False, scale)
        dense = project.dense(x.cores)
        for eps in (None, 1e-8, 1e-2):
            stats["calls"] = stats.get("calls", 0) + 1
            snap = algrun.snapshot([x])
            try:
                y = x.to_qtt(**mkw) if eps is None else x.to_qtt(eps, **mkw)
            except Exception as ex:  # noqa
                problems.append(P("exception", "raised %s: %s" % (type(ex).__name__, str(ex)[:160])))
                continue
            pr = compare(P, tt, y, "tt", q, [], dense.reshape(q), 1e-12 if eps is None else eps, dt, "ranks %s eps=%s" % (x.R, eps), x, snap)
            problems += pr
            if pr:
                continue
            try:
                z = y.qtt_to_tens(list(N))
            except Exception as ex:  # noqa
                problems.append(P("exception", "qtt_to_tens raised %s: %s" % (type(ex).__name__, str(ex)[:160]), "qtt_to_tens"))
                continue
            problems += compare(lambda c, m: P(c, m, "qtt_to_tens"), tt, z, "tt", N, [], dense, 1e-12 if eps is None else eps, dt, "round trip eps=%s" % eps)
    # square operators: to_qtt goes through reshape
    if b == 2 and all(n in (2, 4) for n in N) and len(N) <= 2:
        A = rand_tt(tt, [(n, n) for n in N], 2, gen, torch.float64)
        dense = project.dense(A.cores)
        L = [int(math.log2(n)) for n in N]
        try:
            stats["calls"] = stats.get("calls", 0) + 1
            Y = A.to_qtt()
            dm = len(N)
            # dense: rows M1..Md then cols; split each into bits: (m1 bits.., md bits.., n1 bits .., nd bits ..)
            ref = dense.reshape([2] * (2 * sum(L)))
            problems += compare(lambda c, m: P(c, m, "to_qtt_m"), tt, Y, "ttm", [2] * sum(L), [2] * sum(L), ref, 1e-12, torch.float64, "operator")
        except Exception as ex:  # noqa
            problems.append(P("exception", "operator to_qtt raised %s: %s" % (type(ex).__name__, str(ex)[:160]), "to_qtt_m"))
    return {"problems": problems, "stats": stats, "sample": {"N": N, "qtt_shape": q}}


def rerun(payload):
    h = {"reshape": handler_reshape, "permute": handler_permute, "qtt": handler_qtt}[payload["kind"]]
    r = h(payload["state"], {})
    return r["problems"] if r else []
