"""Sampled (seeded) numeric runs that complement the model-generated cases: structures the nested model cannot
express (general spectra, orders up to 6/7, singleton modes anywhere).  Problems are reported through the same
runner; these are exploration-grade and said so in the evidence."""
import math, itertools
import numpy as np
import torch

from . import project, truncrun, engine


def _init():
    engine._init_worker()
    import torchtt
    return torchtt


def lowrank_array(shape, ranks, gen, dt, decay=None):
    """dense array = full of a random TT with the given ranks (optionally with geometrically decaying core scales)"""
    d = len(shape)
    R = [1] + list(ranks) + [1]
    t = None
    for k in range(d):
        c = torch.randn(R[k], shape[k], R[k + 1], generator=gen, dtype=torch.float64)
        if decay is not None:
            c = c * (decay ** torch.arange(R[k + 1], dtype=torch.float64))[None, None, :]
        t = c[0] if t is None else torch.tensordot(t, c, dims=([t.dim() - 1], [0]))
    t = t[..., 0]
    if dt.is_complex:
        t = t.to(dt) * torch.exp(1j * torch.randn(shape, generator=gen, dtype=torch.float64)).to(dt) if False else t.to(dt) * complex(0.6, 0.8)
    return t.to(dt)


def unfolding_ranks(A, shape, tol):
    out = []
    M = A.reshape(-1)
    n = A.numel()
    left = 1
    for k in range(len(shape) - 1):
        left *= shape[k]
        s = torch.linalg.svdvals(A.reshape(left, n // left).to(torch.complex128 if A.is_complex() else torch.float64))
        out.append(int((s > tol * s[0]).sum().item()) if s[0] > 0 else 0)
    return out


def c01_extra(run, tier):
    tt = _init()
    gen = torch.Generator().manual_seed(4242 + run.seed)
    shapes = [[5], [1], [4, 3], [1, 4], [4, 1], [3, 1, 4], [1, 3, 4, 1], [2, 3, 2, 3], [3, 2, 1, 2, 3], [2, 2, 2, 2, 2, 2], [6, 1, 1, 5], [2, 1, 2, 1, 2, 2]]
    if tier == "thorough":
        shapes += [[4, 4, 4], [3, 3, 3, 3], [2, 3, 4, 2, 2], [7, 2, 6], [2, 2, 3, 1, 2, 2]]
    epss = [1e-12, 1e-6, 1e-3, 1e-1, 0.3]
    n = 0
    for shape in shapes:
        d = len(shape)
        for dt in (torch.float64, torch.complex128, torch.float32):
            for eps in epss:
                if dt == torch.float32 and eps < 1e-3:
                    continue
                for decay in (None, 0.3):
                    ranks = [min(3, int(np.prod(shape[:k + 1])), int(np.prod(shape[k + 1:]))) for k in range(d - 1)]
                    A = lowrank_array(shape, ranks, gen, dt, decay)
                    rho = unfolding_ranks(A, shape, 1e3 * truncrun.U[dt]) if d > 1 else []
                    n += 1

                    def P(cls, msg, shape=shape, eps=eps, dt=dt, decay=decay):
                        return {"prop": "C01", "cls": cls, "op": "TT(dense)", "key": {"op": "TT(dense)", "cls": cls, "source": "random", "d": len(shape)},
                                "msg": "TT(random rank-<=3 array of shape %s, %s, decay=%s, eps=%g): %s" % (shape, dt, decay, eps, msg),
                                "replay": {"engine": "vf.numrun", "what": "c01", "note": "seeded random array; rerun the check with the same VERIF_SEED"}}
                    try:
                        X, ev = truncrun.record_trunc("to_tt", d, eps, lambda: tt.TT(A if n % 2 else A.numpy(), eps=eps))
                        if isinstance(X, tt.TT) and dt != torch.float32 and d > 1:
                            e2 = torch.linalg.norm(project.dense(X.cores) - A).item() ** 2
                            run._extra_traces = getattr(run, "_extra_traces", []) + [truncrun.make_trace("to_tt", d, eps, torch.linalg.norm(A).item() ** 2, e2, ev, "random %s" % shape)]
                    except Exception as ex:  # noqa
                        run.problems.append(P("exception", "raised %s: %s" % (type(ex).__name__, str(ex)[:200])))
                        continue
                    run.problems += truncrun.check_result(P, tt, X, "tt", list(shape), [], [10 ** 9] * (d - 1), rho, eps, False, A, dt, "random")
    # operator shapes (list of (M, N) tuples) of order 1..3, rectangular, from sources of three forms: the natural
    # M1 x .. x Md x N1 x .. x Nd array, the same data as a flat vector, and as a numpy array
    opshapes = [[(3, 4)], [(4, 2)], [(1, 3)], [(2, 2)], [(2, 3), (3, 2)], [(3, 1), (2, 4)], [(2, 2), (1, 3), (3, 2)]]
    m = 0
    for shp in opshapes:
        M, N = [a for a, _ in shp], [b for _, b in shp]
        d = len(shp)
        for dt in (torch.float64, torch.complex128):
            for eps in (1e-12, 1e-3):
                A = torch.randn(M + N, generator=gen, dtype=torch.float64).to(dt)
                for form in ("natural", "flat", "numpy"):
                    src = A if form == "natural" else (A.reshape(-1).clone() if form == "flat" else A.numpy())
                    m += 1

                    def P(cls, msg, shp=shp, form=form, dt=dt, eps=eps):
                        return {"prop": "C01", "cls": cls, "op": "TT(dense)", "key": {"op": "TT(dense)", "cls": cls, "source": "operator-" + form, "d": len(shp)},
                                "msg": "TT(%s source, shape=%s, %s, eps=%g): %s" % (form, shp, dt, eps, msg),
                                "replay": {"engine": "vf.numrun", "what": "c01", "note": "seeded random array; rerun the check with the same VERIF_SEED"}}
                    try:
                        X = tt.TT(src, [(int(a), int(b)) for a, b in shp], eps=eps)
                    except Exception as ex:  # noqa
                        run.problems.append(P("exception", "raised %s: %s" % (type(ex).__name__, str(ex)[:200])))
                        continue
                    run.problems += truncrun.check_result(P, tt, X, "ttm", N, M, [10 ** 9] * (d - 1), [10 ** 9] * (d - 1), eps, False, A, dt, "operator-" + form,
                                                          exact_rank_check=False)
    n += m
    run.evaluations += n
    run.stats["random_arrays"] = n
    run.stats["operator_constructor_forms"] = m


def c02_extra(run, tier):
    tt = _init()
    from . import algrun
    gen = torch.Generator().manual_seed(777 + run.seed)
    n = 0
    cases = [([4], [], "tt"), ([3, 4], [2], "tt"), ([3, 1, 4], [2, 2], "tt"), ([2, 3, 2, 3], [2, 3, 2], "tt"), ([2, 2, 2, 2, 2, 2, 2], [2, 2, 2, 2, 2, 2], "tt"),
             ([3, 2, 3], [3, 3], "ttm")]
    for shape, ranks, kind in cases:
        d = len(shape)
        for dt in (torch.float64, torch.complex128):
            for eps in (0.0, 1e-12, 1e-6, 1e-2, 0.3):
                for variant in ("sum3", "ppq", "zero", "scaled"):
                    R = [1] + ranks + [1]
                    def mk():
                        cs = []
                        for k in range(d):
                            sh = [R[k], shape[k], R[k + 1]] if kind == "tt" else [R[k], shape[k], 2, R[k + 1]]
                            cs.append(torch.randn(sh, generator=gen, dtype=torch.float64).to(dt))
                        return tt.TT(cs)
                    x = mk()
                    if variant == "sum3":
                        x = x + x + x            # exact ranks R, stored 3R
                        rho = list(ranks)
                    elif variant == "ppq":
                        q_ = mk()
                        x = x + x + q_           # a repeated term before a different one: dependent columns stand before independent ones
                        rho = None               # (the accuracy bound decides; the exact ranks depend on the mode sizes)
                    elif variant == "zero":
                        z = x * 0                # exact zero cores
                        x = z + z + x * 0        # the zero tensor stored with ranks 3
                        rho = [0] * (d - 1)
                    else:
                        cs = [c.clone() for c in x.cores]
                        for k in range(d - 1):
                            cs[k] = cs[k] * 1e5; cs[k + 1] = cs[k + 1] * 1e-5
                        x = tt.TT(cs)
                        rho = None
                    n += 1
                    dense = project.dense(x.cores)
                    snap = algrun.snapshot([x])

                    def P(cls, msg, shape=shape, eps=eps, dt=dt, variant=variant, kind=kind):
                        return {"prop": "C02", "cls": cls, "op": "round", "key": {"op": "round", "cls": cls, "source": "random", "variant": variant},
                                "msg": "round(%s %s %s, %s, eps=%g): %s" % (variant, kind, shape, dt, eps, msg),
                                "replay": {"engine": "vf.numrun", "what": "c02", "note": "seeded random TT; rerun the check with the same VERIF_SEED"}}
                    try:
                        y, ev = truncrun.record_trunc("round_tt", d, eps, lambda: x.round(eps))
                        if isinstance(y, tt.TT) and d > 1:
                            e2 = torch.linalg.norm(project.dense(y.cores) - dense).item() ** 2
                            run._extra_traces = getattr(run, "_extra_traces", []) + [truncrun.make_trace("round_tt", d, eps, torch.linalg.norm(dense).item() ** 2, e2, ev, "random %s %s" % (variant, shape))]
                    except Exception as ex:  # noqa
                        run.problems.append(P("exception", "raised %s: %s" % (type(ex).__name__, str(ex)[:200])))
                        continue
                    for nn, why in algrun.changed([x], snap):
                        run.problems.append(P("operand-changed", "; ".join(why)))
                    dX = project.derived_desc(x.cores)
                    run.problems += truncrun.check_result(P, tt, y, dX["k"], dX["N"], dX["M"], [10 ** 9] * (d - 1),
                                                          rho if rho is not None else [10 ** 9] * (d - 1), eps, False, dense, dt, variant,
                                                          exact_rank_check=(rho is not None and variant != "zero") or (variant == "zero" and eps > 0))
                    if isinstance(y, tt.TT) and any(int(a) > int(b) for a, b in zip(y.R, x.R)):
                        run.problems.append(P("rank-monotone", "a rank grew: %s -> %s" % (x.R, y.R)))
    run.evaluations += n
    run.stats["random_tts"] = n
