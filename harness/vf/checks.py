"""Per-property checks.  Each function builds a Run, drives TLC and the replay/trace validation and
returns the Run; bin/check turns it into evidence + verdict."""
import os, sys, json, time

from . import tlc, engine, runner

NPROC = int(os.environ.get("VERIF_NPROC", "16"))
TLC_WORKERS = int(os.environ.get("VERIF_TLC_WORKERS", "8"))


def model_invariants_ok(run, r, what):
    """A violated invariant of the *model* means the specification itself is inconsistent (design error in
    the spec, e.g. core-level construction != dense definition): machinery failure, not a verdict on the code."""
    if r.get("invariant_violated") or r.get("action_property_violated") or not r.get("no_error"):
        run.machinery.append({"msg": "TLC reported a problem in the model itself during '%s': %s (log %s)" % (
            what, r.get("invariant_violated") or r.get("action_property_violated") or "no 'No error' line", r["log"])})
        return False
    return True


def alg_family(run, module, cfg, prop, what, opts=None, handler="vf.algrun:handler"):
    r = tlc.run_tlc(module, cfg, dump=True, workers=TLC_WORKERS)
    run.add_tlc(r, what)
    if not model_invariants_ok(run, r, what):
        return
    o = {"prop": prop}
    o.update(opts or {})
    rr = engine.replay_dump(r["dump"], handler, o, nproc=NPROC)
    run.add_replay(rr, module + "/" + cfg)
    try:
        os.remove(r["dump"])
    except OSError:
        pass


def C03(tier):
    run = runner.Run("C03", tier, "model_checking")
    alg_family(run, "MC_C03", "MC_C03_" + tier, "C03", "TT-tensor arithmetic, one-step behaviours")
    run.rule = ("every state of spec/Alg.tla restricted to the C03 operations (operands = all TT tensors of order<=3 over sizes "
                "{1,2,3} with interior ranks from the tier's set, real and complex, plus canonical order-4/5 profiles; all "
                "broadcast alignments; 12 scalar kinds) is executed on the implementation in float64 (+float32 for real data) "
                "and compared bit-for-bit with the TLC-computed dense value, ranks, shape and dtype; non-trivial = order>=2 "
                "and some interior rank>=2 or a broadcast")
    run.exhaustive = True
    run.assumptions = ["integer-valued fills: the outputs are polynomials in the core entries, so a structural error cannot vanish on "
                       "the three residue-based fills used; overflow/precision for huge magnitudes is not examined",
                       "the harness's own tensordot contraction of the result cores is trusted as the projection"]
    return run


REGISTRY = {"C03": C03}
