"""Replay of the C19 states of spec/Alg.tla (copies and save/load round trips)."""
import os, tempfile, shutil
import numpy as np
import torch

from . import algrun, fill, project

TMP = os.path.join(os.environ.get("VERIF_OUT") or os.path.join(os.path.dirname(os.path.dirname(os.path.dirname(os.path.abspath(__file__)))), "out"), "tmp")


def make(tt, S, origin, real):
    X = algrun.build(S, real)
    if origin == "cores":
        return X
    if origin == "tview":
        return X.t().t()
    if origin == "slice2":
        d = len(S["I"])
        return X[(slice(None, None, 2),) + (slice(None),) * (d - 1)] if d > 1 else X[slice(None, None, 2)]
    if origin == "neg":
        return -X
    if origin == "conj":
        return X.conj()
    if origin == "svd":
        D = project.dense(X.cores)
        if S["k"] == "tt":
            return tt.TT(D.numpy() if S["f"] % 2 else D, eps=1e-14)
        return tt.TT(D, [(int(m), int(n)) for m, n in zip(S["I"], S["J"])], eps=1e-14)
    raise ValueError(origin)


CASTS = ("to_dtype", "to_both", "to_pos")


def handler(st, opts):
    case, res = st["case"], st["res"]
    if case["op"] == "init":
        return None
    import torchtt as tt
    problems, stats = [], {"behaviours": 1}
    S, op, origin = case["x"], case["op"], case["origin"]
    reals = ["f64", "f32"] if not S["cx"] else ["f64"]
    for real in reals:
        def P(cls, msg, extra=None):
            k = {"op": op, "cls": cls, "origin": origin, "kind": S["k"], "cx": S["cx"], "dtype": real}
            k.update(extra or {})
            return {"prop": "C19", "cls": cls, "op": op, "msg": "%s on %s-origin %s %s: %s" % (op, origin, S["k"], S["I"], msg), "key": k,
                    "replay": {"engine": "vf.copyrun", "state": st}}
        stats["calls"] = stats.get("calls", 0) + 1
        stats["op:" + op] = stats.get("op:" + op, 0) + 1
        if len(S["I"]) >= 2 and max(S["R"]) >= 2:
            stats["nontrivial"] = stats.get("nontrivial", 0) + (1 if real == "f64" else 0)
        try:
            X = make(tt, S, origin, real)
        except Exception as e:   # noqa   building the object is not what this property is about
            stats["origin-failed"] = stats.get("origin-failed", 0) + 1
            continue
        dt = X.cores[0].dtype
        pre = project.derived_desc(X.cores)
        # (contraction of contiguous copies: the value of an object is a function of the entries of its cores, not of their memory
        #  layout - BLAS sums non-contiguous operands in another order, 1e-14 apart; bit-identity of the cores is checked separately)
        cdense = lambda cores: project.dense([c.detach().resolve_conj().contiguous() for c in cores])
        pre_dense = cdense(X.cores)
        snap = algrun.snapshot([X])
        try:
            if op == "save_load":
                os.makedirs(TMP, exist_ok=True)
                dd = tempfile.mkdtemp(dir=TMP)
                try:
                    # file names as a user may choose them; a second object is saved next to the first before it is loaded
                    # back (a file is identified by its whole name)
                    names = [("x.TT", "y.TT"), ("obj.0", "obj.1"), ("state", "state.bak"), ("a.b.TT", "a.c.TT")][(len(S["I"]) + S["f"]) % 4]
                    path = os.path.join(dd, names[0])
                    tt.save(X, path)
                    tt.save(-X, os.path.join(dd, names[1]))
                    Y = tt.load(path)
                    # the same path written again (an object of the same structure, hence a file of the same size) and read
                    # back: load returns what the file holds now
                    NX = -X
                    tt.save(NX, path)
                    Z = tt.load(path)
                    if not isinstance(Z, tt.TT) or len(Z.cores) != len(NX.cores) or any(
                            a.shape != b.shape or not torch.equal(a.detach().resolve_conj(), b.detach().resolve_conj()) for a, b in zip(Z.cores, NX.cores)):
                        problems.append(P("overwrite", "load after the file was overwritten does not return the object saved last"))
                finally:
                    shutil.rmtree(dd, ignore_errors=True)
            elif op == "clone_c": Y = X.clone()
            elif op == "detach": Y = X.detach()
            elif op == "cpu": Y = X.cpu()
            elif op in CASTS:
                tgt = {torch.float64: torch.float32, torch.float32: torch.float64, torch.complex128: torch.complex64}[dt]
                Y = X.to(dtype=tgt) if op == "to_dtype" else (X.to(device=torch.device("cpu"), dtype=tgt) if op == "to_both" else X.to("cpu", tgt))
            elif op == "to_device": Y = X.to("cpu")
            elif op == "to_none": Y = X.to()
            elif op == "numpy": Y = X.numpy()
        except Exception as e:   # noqa
            problems.append(P("exception", "raised %s: %s" % (type(e).__name__, str(e)[:200]), {"exc": type(e).__name__}))
            continue
        for n, why in algrun.changed([X], snap):
            problems.append({"prop": "C06", "cls": "operand-changed", "op": op, "msg": "%s changed its operand: %s" % (op, why),
                             "key": {"op": op, "cls": "operand-changed"}, "replay": {"engine": "vf.copyrun", "state": st}})
        exp = algrun.expected_dense(res, dt)
        tol = res.get("tol", "exact")
        if op == "numpy":
            if not isinstance(Y, np.ndarray):
                problems.append(P("kind", "numpy() returned %s" % type(Y).__name__)); continue
            if list(Y.shape) != list(res["sh"]):
                problems.append(P("shape", "numpy() shape %s, expected %s" % (list(Y.shape), list(res["sh"])))); continue
            if not algrun._close(torch.tensor(Y), pre_dense, dt, tol):
                problems.append(P("value", "numpy() differs from the object's dense value"))
            if not algrun._close(torch.tensor(Y), exp, dt, tol):
                problems.append(P("value", "numpy() differs from the model value"))
            continue
        if not isinstance(Y, tt.TT):
            problems.append(P("kind", "returned %s" % type(Y).__name__)); continue
        wf = project.wf_problems(Y)
        if wf:
            problems.append({"prop": "C05", "cls": "ill-formed", "op": op, "msg": "result of %s ill-formed: %s" % (op, wf),
                             "key": {"op": op, "cls": "ill-formed"}, "replay": {"engine": "vf.copyrun", "state": st}})
            continue
        post = project.derived_desc(Y.cores)
        if post != pre:
            problems.append(P("descriptor", "descriptor %s, original %s" % (post, pre))); continue
        ed = res["d"]
        if (post["k"], post["N"], post["M"]) != (ed["k"], list(ed["N"]), list(ed["M"])):
            problems.append(P("shape", "descriptor %s, model %s" % (post, ed)))
        if [int(r) for r in Y.R] != [int(r) for r in X.R] or Y.is_ttm != X.is_ttm or list(Y.N) != list(X.N):
            problems.append(P("descriptor", "reported R/N/is_ttm differ: %s %s vs %s %s" % (Y.R, Y.N, X.R, X.N)))
        want_dt = dt
        if op in CASTS:
            want_dt = {torch.float64: torch.float32, torch.float32: torch.float64, torch.complex128: torch.complex64}[dt]
        if {c.dtype for c in Y.cores} != {want_dt}:
            problems.append(P("dtype", "dtype %s, expected %s" % ({c.dtype for c in Y.cores}, want_dt)))
        if op in ("save_load", "clone_c", "detach", "cpu", "to_device", "to_none"):
            for k, (a, b) in enumerate(zip(X.cores, Y.cores)):
                if a.shape != b.shape or a.dtype != b.dtype or \
                        a.detach().resolve_conj().contiguous().numpy().tobytes() != b.detach().resolve_conj().contiguous().numpy().tobytes():
                    problems.append(P("cores", "core %d is not bit-identical after %s" % (k, op)))
                    break
        got = cdense(Y.cores)
        if op in CASTS:
            ref = pre_dense.to(want_dt)
            if not torch.equal(got, cdense([c.to(want_dt) for c in X.cores])):
                # value must be the cast value (contraction of cast cores)
                problems.append(P("value", "to(dtype) value differs from the cast cores' value"))
        else:
            if not torch.equal(got, pre_dense):
                problems.append(P("value", "dense value differs from the original's"))
            if not algrun._close(got, exp, dt, tol):
                problems.append(P("value", "dense value differs from the model value"))
        if op == "clone_c":
            sx, sy = set(project.storage_tokens(X.cores)), set(project.storage_tokens(Y.cores))
            if sx & sy:
                problems.append(P("aliasing", "clone shares storage with the original"))
            else:
                # a write into the clone's storage (done by the harness) must leave the original untouched
                for c in Y.cores:
                    c.detach().mul_(0)
                if not torch.equal(cdense(X.cores), pre_dense):
                    problems.append(P("aliasing", "writing into the clone changed the original"))
        if op == "detach" and any(c.requires_grad for c in Y.cores):
            problems.append(P("grad", "detach() result still requires grad"))
    sample = {"case": case, "expected": {"d": res.get("d"), "sh": res["sh"]}}
    return {"problems": problems, "stats": stats, "sample": sample}


def tied_extra(run):
    """objects whose cores are different views of one buffer beginning at the same address (a tied parametrisation): every copy
    operation must reproduce the object, not the buffer"""
    import torchtt as tt
    n = 0
    for dt in (torch.float64, torch.float32, torch.complex128):
        u = (torch.arange(1, 13, dtype=torch.float64) / 7.0).to(dt)
        Bm = (torch.arange(1, 10, dtype=torch.float64).reshape(1, 3, 3, 1) / 5.0).to(dt)
        objs = {"prefix views": lambda: tt.TT([u[:5].reshape(1, 5, 1), u[:4].reshape(1, 4, 1), u[:3].reshape(1, 3, 1)]),
                "two shapes of one buffer": lambda: tt.TT([u.reshape(1, 4, 3), u.reshape(3, 4, 1)]),
                "operator and its transposed view": lambda: tt.TT([Bm, Bm.transpose(1, 2)])}
        for oname, mk in objs.items():
            X = mk()
            cdense = lambda cores: project.dense([c.detach().resolve_conj().contiguous() for c in cores])      # layout independent
            ref = cdense(X.cores).clone()
            pre = project.derived_desc(X.cores)
            ops = {"clone": lambda: X.clone(), "detach": lambda: X.detach(), "cpu": lambda: X.cpu(), "to": lambda: X.to("cpu"),
                   "conj.conj": lambda: X.conj().conj(), "save_load": None}
            for op, th in ops.items():
                n += 1

                def P(cls, msg, op=op, oname=oname, dt=dt):
                    return {"prop": "C19", "cls": cls, "op": op, "key": {"op": op, "cls": cls, "origin": "tied"},
                            "msg": "%s of a TT with tied cores (%s, %s): %s" % (op, oname, dt, msg),
                            "replay": {"engine": "vf.copyrun", "note": "deterministic extra case; rerun the check"}}
                try:
                    if op == "save_load":
                        os.makedirs(TMP, exist_ok=True)
                        dd = tempfile.mkdtemp(dir=TMP)
                        try:
                            tt.save(X, os.path.join(dd, "t.TT")); Y = tt.load(os.path.join(dd, "t.TT"))
                        finally:
                            shutil.rmtree(dd, ignore_errors=True)
                    else:
                        Y = th()
                except Exception as ex:  # noqa
                    run.problems.append(P("exception", "raised %s: %s" % (type(ex).__name__, str(ex)[:160])))
                    continue
                if not isinstance(Y, tt.TT) or project.wf_problems(Y) or project.derived_desc(Y.cores) != pre:
                    run.problems.append(P("descriptor", "the copy is not a well-formed object of the same kind, shape and ranks"))
                elif not torch.equal(cdense(Y.cores), ref):
                    run.problems.append(P("value", "the copy's dense value differs from the original's"))
                if not torch.equal(cdense(X.cores), ref):
                    run.problems.append(P("operand-changed", "the original changed"))
    run.evaluations += n
    run.stats["tied_core_cases"] = n


def rerun(payload):
    r = handler(payload["state"], {})
    return r["problems"] if r else []
