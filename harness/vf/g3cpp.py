"""C17: the compiled backend against the Python backend on the C11 (fast_matvec) and C12 (amen_solve) configurations.
Both backends are run on identical inputs; each must satisfy the owning contract and they must agree within it."""
import math
import numpy as np
import torch

from . import project, algrun
from .g3run import opt_kwargs, rand_tt, dense_op, rel_err, mk_problem, check_tt, check_operands, TOL, U64
from . import g3solve


def handler(st, opts):
    if st["expect"]["t"] == "none":
        return None
    cfg = st["cfg"]
    if cfg["backend"] != "cpp":
        return None
    import torchtt as tt
    problems, stats = [], {"behaviours": 1, "calls": 0}
    if not tt.cpp_enabled():
        return {"problems": [{"cls": "machinery", "msg": "the compiled backend is not importable in the worker", "key": {"cls": "machinery"}}], "stats": {}}
    N, M = [int(v) for v in cfg["N"]], [int(v) for v in cfg["M"]]
    d = len(N)
    eps = 10.0 ** (-cfg["e"])
    dt = torch.complex128 if cfg.get("cx") else torch.float64
    seed = opts.get("seed", 0)
    gen = torch.Generator().manual_seed(8000 + 1000 * cfg["seed"] + 7 * d + cfg["r"] + seed)
    op = cfg["op"]
    if op == "fast_matvec":
        A = rand_tt(tt, list(zip(M, N)), cfg["r"], gen, dt, cfg["data"] == "decay")
        x = rand_tt(tt, N, cfg["r"], gen, dt, cfg["data"] == "decay")
        if cfg.get("scale", "unit") == "small":
            A = 1e-5 * A
        if cfg["data"] == "zero":
            x = tt.zeros(N, dtype=dt)
        ref = (dense_op(A) @ project.dense(x.cores).reshape(-1)).reshape(M)
        g = rand_tt(tt, M, 2, gen, dt) if cfg["guess"] != "none" else None
        kw = opt_kwargs(op, cfg.get("opt"))
        if cfg["guess"] == "zero":
            g = tt.zeros(M, dtype=dt)
        if cfg["guess"] in ("exact1", "exact2"):       # the exact product as the guess and a sweep budget of 1 / 2 (final-sweep branch)
            g = tt.TT(ref.clone(), eps=1e-14)
            kw = dict(kw, nswp=int(cfg["guess"][-1]))
        objs, names = [A, x] + ([g] if g is not None else []), ["A", "x"] + (["initial"] if g is not None else [])
        outs = {}
        for be in ("py", "cpp"):
            torch.manual_seed(cfg["seed"] + seed)
            snap = algrun.snapshot(objs)
            stats["calls"] += 1
            try:
                Y = A.fast_matvec(x, eps=eps, initial=g, use_cpp=(be == "cpp"), **kw)
            except Exception as ex:  # noqa
                problems.append(mk_problem("C17", "exception", cfg, "backend %s raised %s: %s" % (be, type(ex).__name__, str(ex)[:200]), st, {"which": be}))
                continue
            check_operands(cfg, st, tt, objs, snap, names, problems)
            if not check_tt("C17", cfg, st, tt, Y, "tt", M, [], problems):
                continue
            outs[be] = project.dense(Y.cores)
            err = rel_err(outs[be], ref)
            stats["err_over_eps_max"] = max(stats.get("err_over_eps_max", 0), err / eps)
            if err > TOL["C11"] * eps + 1e3 * U64:
                problems.append(mk_problem("C17", "accuracy", cfg, "backend %s: relative error %.3g > %g*eps (eps=%g)" % (be, err, TOL["C11"], eps), st, {"which": be}))
        if len(outs) == 2 and rel_err(outs["cpp"], outs["py"]) > 2 * TOL["C11"] * eps + 1e3 * U64:
            problems.append(mk_problem("C17", "disagree", cfg, "backends differ by %.3g relative (eps=%g)" % (rel_err(outs["cpp"], outs["py"]), eps), st))
    else:
        sysc = cfg["sys"]
        if sysc == "laplace":
            A = g3solve.laplace_like(tt, N, dt, gen)
        elif sysc == "diagvar":
            A = g3solve.diagvar(tt, N, dt, gen)
        elif sysc == "spd":
            A = g3solve.spd(tt, N, cfg["r"], dt, gen)
        else:
            A, _ = g3solve.diagdom(tt, N, cfg["r"], dt, gen)
        if cfg["data"] == "decay":
            b = rand_tt(tt, N, cfg["r"], gen, dt)
        else:
            xt = rand_tt(tt, N, cfg["r"], gen, dt)
            b = (A @ xt).round(1e-14)
        if cfg["data"] == "zero":
            b = tt.zeros(N, dtype=dt)
        if cfg.get("scale", "unit") == "small":      # badly scaled data: the residual bound is relative
            b = 1e-5 * b
            A = 1e3 * A
        Ad = dense_op(A); bd = project.dense(b.cores).reshape(-1)
        g = rand_tt(tt, N, 2, gen, dt) if cfg["guess"] != "none" else None
        if cfg["guess"] == "zero":
            g = tt.zeros(N, dtype=dt)
        prec = None if cfg["prec"] == "none" else cfg["prec"]
        objs, names = [A, b] + ([g] if g is not None else []), ["A", "b"] + (["x0"] if g is not None else [])
        outs = {}
        for be in ("py", "cpp"):
            torch.manual_seed(cfg["seed"] + seed)
            snap = algrun.snapshot(objs)
            stats["calls"] += 1
            try:
                X = tt.solvers.amen_solve(A, b, x0=g, eps=eps, max_full=cfg["maxfull"], preconditioner=prec, use_cpp=(be == "cpp"), verbose=False,
                                           **opt_kwargs(op, cfg.get("opt")))
            except Exception as ex:  # noqa
                problems.append(mk_problem("C17", "exception", cfg, "backend %s raised %s: %s" % (be, type(ex).__name__, str(ex)[:200]), st, {"which": be}))
                continue
            check_operands(cfg, st, tt, objs, snap, names, problems)
            if not check_tt("C17", cfg, st, tt, X, "tt", N, [], problems):
                continue
            xd = project.dense(X.cores).reshape(-1)
            outs[be] = xd
            res = torch.linalg.norm(Ad @ xd - bd).item() / (torch.linalg.norm(bd).item() or 1.0)
            stats["res_over_eps_max"] = max(stats.get("res_over_eps_max", 0), res / eps)
            if res > TOL["C12"] * eps + 1e4 * U64:
                problems.append(mk_problem("C17", "residual", cfg, "backend %s: ||Ax-b||/||b|| = %.3g > %g*eps (eps=%g)" % (be, res, TOL["C12"], eps), st, {"which": be}))
        if len(outs) == 2:
            cond = torch.linalg.cond(Ad).item()
            diff = rel_err(outs["cpp"], outs["py"])
            if diff > 2 * TOL["C12"] * eps * cond + 1e4 * U64:
                problems.append(mk_problem("C17", "disagree", cfg, "solutions of the two backends differ by %.3g relative (eps=%g, cond=%.3g)" % (diff, eps, cond), st))
    stats["nontrivial"] = 1 if d >= 2 and cfg["r"] >= 2 else 0
    return {"problems": problems, "stats": stats, "sample": {"cfg": cfg}}


def rerun(payload):
    r = handler(payload["state"], {})
    return r["problems"] if r else []
