"""Generic spec->code replay driver: split a TLC state dump over worker processes, run a handler
on every state, gather problems (deviations) and coverage statistics."""
import os, sys, json, time, collections, traceback
import multiprocessing as mp

from . import tlc

REPO = os.environ.get("VERIF_REPO", "/repo")


def _init_worker():
    os.environ.setdefault("OMP_NUM_THREADS", "1")
    os.environ.setdefault("MKL_NUM_THREADS", "1")
    import warnings
    warnings.filterwarnings("ignore")
    if REPO not in sys.path:
        sys.path.insert(0, REPO)
    cpp = os.environ.get("VERIF_CPP_DIR")       # the compiled backend (C17) must be importable before torchtt is imported
    if cpp and cpp not in sys.path:
        sys.path.insert(0, cpp)
    import torch
    torch.set_num_threads(1)


class StateTimeout(BaseException):
    pass


def _on_alarm(signum, frame):
    raise StateTimeout()


STATE_TIMEOUT = float(os.environ.get("VERIF_STATE_TIMEOUT", "600"))     # seconds per replayed state (a state takes milliseconds to seconds)
TIMEOUTS_SEEN = mp.Value("i", 0)      # shared by the forked workers: after a few timed-out states the budget of the rest shrinks


def _run_chunk(args):
    import signal
    signal.signal(signal.SIGALRM, _on_alarm)
    handler_path, texts, opts = args
    modname, fname = handler_path.rsplit(":", 1)
    import importlib
    mod = importlib.import_module(modname)
    handler = getattr(mod, fname)
    problems, stats, samples, artifacts = [], collections.Counter(), [], []
    for txt in texts:
        try:
            st = tlc.parse_state(txt)
        except Exception as e:  # machinery failure
            problems.append({"cls": "machinery", "msg": "unparsable state: %s" % e, "key": {"cls": "machinery"}})
            continue
        try:
            signal.setitimer(signal.ITIMER_REAL, STATE_TIMEOUT if TIMEOUTS_SEEN.value < 4 else min(STATE_TIMEOUT, 30.0))
            try:
                r = handler(st, opts)
            finally:
                signal.setitimer(signal.ITIMER_REAL, 0)
        except StateTimeout:
            with TIMEOUTS_SEEN.get_lock():
                TIMEOUTS_SEEN.value += 1
            # the call did not return: every property promises a result (or an exception), so this is a deviation of the
            # property the handler serves, reported with the state for replay
            prop = (opts or {}).get("prop") or (st.get("cfg", {}).get("op") and None)
            problems.append({"prop": (opts or {}).get("prop"), "cls": "timeout", "op": str(st.get("cfg", st.get("case", {})).get("op", "?")),
                             "key": {"cls": "timeout", "op": str(st.get("cfg", st.get("case", {})).get("op", "?"))},
                             "msg": "the call did not return within %d s for state %s" % (int(STATE_TIMEOUT), json.dumps(st, default=str)[:600]),
                             "replay": {"engine": handler_path.split(":")[0], "state": st}})
            continue
        except Exception as e:
            problems.append({"cls": "machinery", "msg": "handler crashed: %s\n%s" % (e, traceback.format_exc()),
                             "key": {"cls": "machinery"}, "state": st})
            continue
        if r is None:
            continue
        problems.extend(r.get("problems", []))
        rs = dict(r.get("stats", {}))
        for k in list(rs):
            if k.endswith("_max"):
                stats[k] = max(stats.get(k, 0), rs.pop(k))
        stats.update(rs)
        if r.get("sample") is not None and len(samples) < 2:
            samples.append(r["sample"])
        if r.get("artifacts"):
            artifacts.extend(r["artifacts"])
    return problems, dict(stats), samples, artifacts


def replay_dump(dumpfile, handler_path, opts=None, nproc=16, chunk=200, texts=None):
    """Run the handler on every state of the dump (streamed, with back-pressure so that huge dumps are never held in memory)."""
    import threading
    src = iter(texts) if texts is not None else tlc.iter_dump(dumpfile)
    n_states = [0]
    sem = threading.Semaphore(4 * max(1, nproc))

    def chunks():
        buf = []
        for t in src:
            buf.append(t)
            n_states[0] += 1
            if len(buf) >= chunk:
                sem.acquire()
                yield (handler_path, buf, opts or {})
                buf = []
        if buf:
            sem.acquire()
            yield (handler_path, buf, opts or {})
    problems, stats, samples, artifacts = [], collections.Counter(), [], []
    t0 = time.time()
    if nproc <= 1:
        _init_worker()
        results = map(_run_chunk, chunks())
        pool = None
    else:
        ctx = mp.get_context("fork")
        pool = ctx.Pool(nproc, initializer=_init_worker)
        results = pool.imap_unordered(_run_chunk, chunks())
    for p, s, sm, art in results:
        sem.release()
        artifacts.extend(art)
        if len(problems) < 20000:
            problems.extend(p)
        for k in list(s):
            if k.endswith("_max"):          # maxima are merged by max, counters by sum
                stats[k] = max(stats.get(k, 0), s.pop(k))
        stats.update(s)
        if len(samples) < 6:
            samples.extend(sm)
    if pool is not None:
        pool.close()
        pool.join()
    return {"problems": problems, "stats": dict(stats), "samples": samples[:6], "n_states": n_states[0], "artifacts": artifacts,
            "wall_s": round(time.time() - t0, 2)}
