"""known_findings.json: genuine defects that are recorded rather than repaired (status open) and
repaired ones (status fixed; these suppress nothing).  Read-only at run time."""
import json, os

PATH = os.path.join(os.path.dirname(os.path.dirname(os.path.dirname(os.path.abspath(__file__)))), "known_findings.json")


def load():
    if not os.path.exists(PATH):
        return []
    with open(PATH) as f:
        return json.load(f)["findings"]


def _match_one(want, got):
    if isinstance(want, list):
        return got in want
    if isinstance(want, dict):          # {"ge": 2} / {"le": 3} / {"ne": x}
        for k, v in want.items():
            if k == "ge" and not (got is not None and got >= v): return False
            if k == "le" and not (got is not None and got <= v): return False
            if k == "ne" and not (got != v): return False
            if k == "contains" and not (got is not None and v in got): return False
        return True
    return want == got


def match(problem, prop, findings=None):
    """Return the open finding that lists this problem (by structural key), or None."""
    findings = load() if findings is None else findings
    key = problem.get("key", {})
    for f in findings:
        if f.get("status") != "open" or f["property"] != prop:
            continue
        if all(_match_one(v, key.get(k)) for k, v in f["match"].items()):
            return f
    return None
