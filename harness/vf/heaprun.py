"""Replay of spec/Heap.tla behaviours (histories of public calls over a heap of TT objects).
A state carries h0 (initial structures), hist (the calls) and heap (the exact cores of every object after
the history).  The history is re-executed on torchtt; before the last call all live objects are
snapshotted, after it every live object is projected and compared with the model's heap:
  C05  every live object well formed (cores vs reported N, M, R, shape, is_ttm)
  C06  every pre-existing object except the target of an in-place call unchanged (bitwise, metadata,
       version counters) and equal to the model's entry
  op family property: the new / mutated object has the model's kind, shape, ranks and exact dense value."""
import numpy as np
import torch

from . import fill, project, algrun

OWNER = {"add": "C03", "sub": "C03", "mul": "C03", "neg": "C03", "mul_s": "C03", "div_s": "C03", "add_s": "C03", "rsub_s": "C03",
         "kron": "C03", "matmul": "C04", "t": "C04", "sum": "C07", "index": "C08", "cat": "C09", "pad": "C09", "diag": "C09",
         "to_ttm": "C09", "conj": "C09", "clone": "C19", "set_core": "C05", "reduce_dims": "C05",
         "full": "C03", "norm": "C07", "sum_all": "C07", "numpy": "C19", "repr": "C05"}


RANK_LAW = {"add", "sub", "mul", "matmul", "kron", "cat", "neg", "clone", "conj", "t", "to_ttm", "diag", "mul_s", "div_s",
            "add_s", "rsub_s", "set_core"}


def pre_heap_entry(state, n):
    """model entry of object n before the last step (= after it, unless it was the in-place target)"""
    return state["heap"][n]


def model_dense(obj):
    """dense value of a model object (cores nested [a][i][j][b][re,im]) by the harness's own contraction"""
    cs = [np.array(c, dtype=np.float64) for c in obj["c"]]
    cs = [c[..., 0] + 1j * c[..., 1] for c in cs]
    t = cs[0][0]                      # m x n x r
    for c in cs[1:]:
        t = np.tensordot(t, c, axes=([t.ndim - 1], [0]))
    t = t[..., 0]
    d = len(cs)
    if obj["k"] == "tt":
        return t.reshape([c.shape[1] for c in cs])
    perm = [2 * i for i in range(d)] + [2 * i + 1 for i in range(d)]
    return np.transpose(t, perm)


def model_desc(obj):
    cs = obj["c"]
    R = [len(cs[0])] + [len(c[0][0][0]) for c in cs]
    I = [len(c[0]) for c in cs]
    J = [len(c[0][0]) for c in cs]
    if obj["k"] == "tt":
        return {"k": "tt", "M": [], "N": I, "R": R}
    return {"k": "ttm", "M": I, "N": J, "R": R}


def do_step(tt, objs, st, dts):
    """perform one model step on the real objects; returns the produced object (TT / number / None)"""
    op, a, n, e = st["op"], [i - 1 for i in st["a"]], list(st["n"]), st["e"]
    x = objs[a[0]]
    y = objs[a[1]] if len(a) > 1 else None
    if op == "add": return x + y
    if op == "sub": return x - y
    if op == "mul": return x * y
    if op == "matmul": return x @ y
    if op == "kron": return x ** y
    if op == "cat": return tt.cat((x, y), n[0] - 1)
    if op == "neg": return -x
    if op == "clone": return x.clone()
    if op == "conj": return x.conj()
    if op == "t": return x.t()
    if op == "to_ttm": return x.to_ttm()
    if op == "diag": return tt.diag(x)
    if op == "mul_s": return x * n[0]
    if op == "div_s": return x / float(n[0])
    if op == "add_s": return x + float(n[0])
    if op == "rsub_s": return n[0] - x
    if op == "sum": return x.sum(n[0] - 1)
    if op == "index": return x[algrun.py_index(e)]
    if op == "pad": return tt.pad(x, ((n[0], n[1]),), 0.0)
    if op == "full": x.full(); return None
    if op == "norm": x.norm(); return None
    if op == "sum_all": x.sum(); return None
    if op == "numpy": x.numpy(); return None
    if op == "repr": repr(x); return None
    if op == "set_core":
        p, grow = n[0] - 1, n[1]
        c = x.cores[p]
        if x.is_ttm:
            arr = fill.core_array(7 + grow, False, 3, c.shape[0], c.shape[1] + grow, c.shape[2] + grow, c.shape[3])
            x.set_core(p, torch.tensor(arr, dtype=c.dtype))
        else:
            arr = fill.core_array(7 + grow, False, 3, c.shape[0], c.shape[1] + grow, 1, c.shape[2])[:, :, 0, :]
            x.set_core(p, torch.tensor(arr, dtype=c.dtype))
        return None
    if op == "reduce_dims":
        x.reduce_dims([q - 1 for q in n])
        return None
    raise ValueError("no binding for heap operation %r" % op)


def key_of(st, cls, extra=None):
    k = {"op": st["op"], "cls": cls}
    if extra:
        k.update(extra)
    return k


def handler(state, opts):
    hist = state["hist"]
    if len(hist) == 0:
        return None
    import torchtt as tt
    h0, heap = state["h0"], state["heap"]
    objs = [algrun.build(S) for S in h0]
    try:
        for st in hist[:-1]:
            out = do_step(tt, objs, st, None)
            if isinstance(out, tt.TT):
                objs.append(out)
    except Exception:   # the prefix fails: reported by the prefix's own state
        return {"problems": [], "stats": {"prefix-failed": 1}}
    last = hist[-1]
    snap = algrun.snapshot(objs)
    vers = [project.versions(o.cores) for o in objs]
    npre = len(objs)
    problems = []
    stats = {"calls": 1, "behaviours": 1, "op:" + last["op"]: 1, "nontrivial": 1 if len(hist) >= 2 else 0}

    def P(prop, cls, msg, extra=None):
        return {"prop": prop, "cls": cls, "op": last["op"], "msg": msg, "key": key_of(last, cls, extra),
                "replay": {"engine": "vf.heaprun", "state": state}}
    try:
        out = do_step(tt, objs, last, None)
    except Exception as e:   # noqa  every enumerated call is inside the documented domain
        problems.append(P(OWNER.get(last["op"], "C05"), "exception", "history %s: last call raised %s: %s" % (
            [h["op"] for h in hist], type(e).__name__, str(e)[:200]), {"exc": type(e).__name__}))
        out = None
    if isinstance(out, tt.TT):
        objs.append(out)
    mutated = {last["a"][0] - 1} if last["op"] in ("set_core", "reduce_dims") else set()
    # C06: pre-existing objects
    for n, why in algrun.changed(objs[:npre], snap):
        if n in mutated:
            continue
        problems.append(P("C06", "operand-changed", "history %s: object %d changed by %s: %s" % (
            [h["op"] for h in hist], n + 1, last["op"], "; ".join(why)), {"operand_role": "arg" if (n + 1) in last["a"] else "bystander"}))
    for n in range(npre):
        if n in mutated:
            continue
        if project.versions(objs[n].cores) != vers[n] and len(objs[n].cores) == len(vers[n]):
            problems.append(P("C06", "operand-written", "history %s: cores of object %d were written in place by %s (version counters %s -> %s)" % (
                [h["op"] for h in hist], n + 1, last["op"], vers[n], project.versions(objs[n].cores))))
    # C05: every live object
    for n, o in enumerate(objs):
        pr = project.wf_problems(o)
        if pr:
            problems.append(P("C05", "ill-formed", "history %s: object %d ill-formed: %s" % ([h["op"] for h in hist], n + 1, pr),
                              {"after": last["op"], "role": "result" if n >= npre else ("target" if n in mutated else "other")}))
    # model heap vs implementation
    if len(objs) != len(heap) and not any(p["cls"] == "exception" for p in problems):
        problems.append(P(OWNER.get(last["op"], "C05"), "kind", "history %s: model has %d objects, implementation %d (result kind differs)" % (
            [h["op"] for h in hist], len(heap), len(objs))))
    # ranks are compared only where a rank law is documented and the operands had the model's ranks
    # (slicing / partial sums / reduce_dims / padding leave the distribution of ranks to the implementation)
    ranks_known = last["op"] in RANK_LAW
    for a in last["a"]:
        if a - 1 < npre and a - 1 < len(heap):
            try:
                if list(snap[a - 1]["R"]) != model_desc(pre_heap_entry(state, a - 1))["R"]:
                    ranks_known = False
            except Exception:   # noqa
                ranks_known = False
    # the value after set_core depends on the other cores, i.e. on the representation the implementation chose
    # for a derived object: compared only for user-supplied objects that were never restructured
    # taint tracking over the whole history: an object whose value depends on the representation chosen by the implementation
    # (set_core on a derived / restructured object) and everything computed from it
    NOOBJ = {"full", "norm", "sum_all", "numpy", "repr", "set_core", "reduce_dims"}
    tainted, restructured, nobj = set(), set(), len(h0)
    for h in hist:
        a0 = h["a"][0] - 1
        if h["op"] == "reduce_dims":
            restructured.add(a0)
        elif h["op"] == "set_core":
            if a0 >= len(h0) or a0 in restructured or a0 in tainted:
                tainted.add(a0)
        elif h["op"] not in NOOBJ:
            if any((i - 1) in tainted for i in h["a"]):
                tainted.add(nobj)
            if any((i - 1) in restructured for i in h["a"]):
                pass
            nobj += 1
    tgt = last["a"][0] - 1
    for n in range(min(len(objs), len(heap))):
        if n < npre and n not in mutated:
            continue         # unchanged objects were compared bitwise above; their model entry was checked by the prefix state
        try:
            d = project.derived_desc(objs[n].cores)
        except Exception:
            continue
        md = model_desc(heap[n])
        owner = OWNER.get(last["op"], "C05")
        if (d["k"], d["N"], d["M"]) != (md["k"], md["N"], md["M"]):
            problems.append(P(owner, "shape", "history %s: object %d is %s, model says %s" % ([h["op"] for h in hist], n + 1, d, md)))
            continue
        if ranks_known and d["R"] != md["R"]:
            problems.append(P(owner, "ranks", "history %s: object %d has ranks %s, the rank law gives %s" % (
                [h["op"] for h in hist], n + 1, d["R"], md["R"])))
        if n in tainted:
            continue
        got = project.dense(objs[n].cores).numpy()
        exp = model_dense(heap[n])
        if got.shape != exp.shape or not np.array_equal(got.astype(np.complex128), exp):
            problems.append(P(owner, "value", "history %s: object %d dense value differs from the model (max |diff| %.4g)" % (
                [h["op"] for h in hist], n + 1, float(np.abs(got - exp).max()) if got.shape == exp.shape else -1)))
    sample = {"h0": h0, "hist": hist, "n_objects": len(heap)} if len(hist) >= 2 else None
    return {"problems": problems, "stats": stats, "sample": sample}


def rerun(payload):
    r = handler(payload["state"], {})
    return r["problems"] if r else []
