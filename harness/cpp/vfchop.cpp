// Verification-only wrapper: exposes cpp/ortho.h rank_chop of the repository under test, so that the states of
// spec/RankChop.tla can be replayed through the compiled rank selection as they are through the Python one.
#include <torch/extension.h>
#include "ortho.h"
PYBIND11_MODULE(TORCH_EXTENSION_NAME, m) {
  m.def("rank_chop", &rank_chop, "rank_chop of cpp/ortho.h");
}
